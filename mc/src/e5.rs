//! Engine E5 `schedmc`: searches are pure (C17). Two explorations of the
//! real code:
//!  * schedules: a token-passing scheduler over real OS threads, preemption
//!    points supplied by hook H3 at the head of the search loops; choice-prefix
//!    DFS over all interleavings with a preemption bound;
//!  * histories: every sequence of operations up to a depth on one searcher
//!    (and a clone), and every interleaving of `next()` calls on live cursors.
//! Oracle: each operation's result equals its result on a freshly built
//! searcher that has never been used.

use crate::json::{self, J};
use crate::report::{par_for_desc, pats_show, Report, Stats, Violation};
use crate::spec::Kind;
use crate::universe::Pats;
use aho_corasick::automaton::OverlappingState;
use aho_corasick::{AhoCorasick, AhoCorasickKind, Anchored, Input, StartKind};
use std::cell::Cell;
use std::panic::{catch_unwind, AssertUnwindSafe};
use std::sync::{Arc, Condvar, Mutex};

// ---------------------------------------------------------------- scheduler

#[derive(Clone, Copy, PartialEq, Debug)]
enum TS {
    NotStarted,
    AtPoint,
    Running,
    Finished,
}

struct Ctl {
    m: Mutex<Inner>,
    cv: Condvar,
}
struct Inner {
    turn: Option<usize>,
    st: Vec<TS>,
}

thread_local! {
    static ME: Cell<Option<(usize, *const Ctl)>> = Cell::new(None);
}

/// The function installed as hook H3: threads that take part in an
/// exploration stop here until the scheduler gives them the token; every other
/// thread passes straight through.
pub fn sched_point() {
    ME.with(|me| {
        if let Some((id, ctl)) = me.get() {
            let ctl = unsafe { &*ctl };
            let mut g = ctl.m.lock().unwrap();
            g.st[id] = TS::AtPoint;
            g.turn = None;
            ctl.cv.notify_all();
            while g.turn != Some(id) {
                g = ctl.cv.wait(g).unwrap();
            }
            g.st[id] = TS::Running;
        }
    });
}

pub type Body = Arc<dyn Fn() + Send + Sync>;

pub struct Exec {
    pub choices: Vec<usize>,
    pub enabled: Vec<Vec<usize>>,
    pub running_before: Vec<Option<usize>>,
    pub diverged: bool,
}

/// Run the bodies under a schedule prefix; afterwards: keep running the
/// current thread if enabled, else the lowest id.
pub fn run_schedule(bodies: &[Body], prefix: &[usize]) -> Exec {
    let n = bodies.len();
    let ctl = Arc::new(Ctl { m: Mutex::new(Inner { turn: None, st: vec![TS::NotStarted; n] }), cv: Condvar::new() });
    let mut hs = vec![];
    for (id, b) in bodies.iter().enumerate() {
        let ctl2 = ctl.clone();
        let b = b.clone();
        hs.push(std::thread::spawn(move || {
            ME.with(|me| me.set(Some((id, Arc::as_ptr(&ctl2)))));
            sched_point(); // wait for the first turn
            let _ = catch_unwind(AssertUnwindSafe(|| b()));
            ME.with(|me| me.set(None));
            let mut g = ctl2.m.lock().unwrap();
            g.st[id] = TS::Finished;
            g.turn = None;
            ctl2.cv.notify_all();
        }));
    }
    let mut ex = Exec { choices: vec![], enabled: vec![], running_before: vec![], diverged: false };
    let mut cur: Option<usize> = None;
    loop {
        let mut g = ctl.m.lock().unwrap();
        while g.turn.is_some() || g.st.iter().any(|s| *s == TS::NotStarted || *s == TS::Running) {
            g = ctl.cv.wait(g).unwrap();
        }
        let en: Vec<usize> = (0..n).filter(|&i| g.st[i] == TS::AtPoint).collect();
        if en.is_empty() {
            break;
        }
        // canonical order: the running thread first if still enabled, then ascending ids
        let mut order = vec![];
        if let Some(c) = cur {
            if en.contains(&c) {
                order.push(c);
            }
        }
        for &i in &en {
            if !order.contains(&i) {
                order.push(i);
            }
        }
        let k = ex.choices.len();
        let pick = if k < prefix.len() {
            if prefix[k] >= order.len() {
                ex.diverged = true;
                0
            } else {
                prefix[k]
            }
        } else {
            0
        };
        ex.running_before.push(cur.filter(|c| en.contains(c)));
        ex.enabled.push(order.clone());
        ex.choices.push(pick);
        let t = order[pick];
        cur = Some(t);
        g.turn = Some(t);
        g.st[t] = TS::Running;
        ctl.cv.notify_all();
    }
    for h in hs {
        let _ = h.join();
    }
    ex
}

/// Choice-prefix DFS with a preemption bound. `check` is called after every
/// complete execution with the schedule; returns (executions, points of the
/// longest execution, divergences).
/// An exploration is abandoned after this many executions (never reached on
/// the unchanged library: the largest exploration of the thorough tier has
/// well under a tenth of it). A change that multiplies the scheduling points
/// of an operation would otherwise make the DFS run for hours.
pub static EXEC_CAP: std::sync::atomic::AtomicU64 = std::sync::atomic::AtomicU64::new(20_000);

pub fn explore(bodies: &[Body], bound: usize, reset: &dyn Fn(), check: &mut dyn FnMut(&Exec)) -> (u64, usize, u64) {
    let cap = EXEC_CAP.load(std::sync::atomic::Ordering::Relaxed);
    let mut stack: Vec<Vec<usize>> = vec![vec![]];
    let mut execs = 0u64;
    let mut maxpoints = 0usize;
    let mut div = 0u64;
    while let Some(prefix) = stack.pop() {
        if execs >= cap {
            break;
        }
        reset();
        let x = run_schedule(bodies, &prefix);
        execs += 1;
        if x.diverged {
            div += 1;
        }
        maxpoints = maxpoints.max(x.choices.len());
        check(&x);
        let mut pre = 0usize;
        let mut pre_before = vec![];
        for i in 0..x.choices.len() {
            pre_before.push(pre);
            if x.running_before[i].is_some() && x.choices[i] != 0 {
                pre += 1;
            }
        }
        for i in prefix.len()..x.choices.len() {
            for alt in 1..x.enabled[i].len() {
                let cost = pre_before[i] + if x.running_before[i].is_some() { 1 } else { 0 };
                if cost > bound {
                    continue;
                }
                let mut p = x.choices[..i].to_vec();
                p.push(alt);
                stack.push(p);
            }
        }
    }
    (execs, maxpoints, div)
}

// ---------------------------------------------------------------- subjects

#[derive(Clone)]
pub struct Subject {
    pub name: &'static str,
    pub pats: Pats,
    pub mk: Kind,
    pub kind: AhoCorasickKind,
    pub ci: bool,
}

fn b(s: &str) -> Vec<u8> {
    s.as_bytes().to_vec()
}

pub fn subjects() -> Vec<Subject> {
    use AhoCorasickKind::*;
    vec![
        Subject { name: "std-dfa", pats: vec![b("ab"), b("b"), b("abc")], mk: Kind::Std, kind: DFA, ci: false },
        Subject { name: "std-nnfa-rare", pats: vec![b("ez"), b(" z"), b("tz")], mk: Kind::Std, kind: NoncontiguousNFA, ci: false },
        Subject { name: "std-cnfa-start", pats: vec![b("ab"), b("ac"), b("abd")], mk: Kind::Std, kind: ContiguousNFA, ci: false },
        Subject { name: "lf-cnfa-packed", pats: vec![b("foo"), b("bar"), b("baz"), b("quux"), b("zap")], mk: Kind::LF, kind: ContiguousNFA, ci: false },
        Subject { name: "ll-dfa-memmem", pats: vec![b("abcab")], mk: Kind::LL, kind: DFA, ci: false },
        Subject { name: "lf-nnfa-ci", pats: vec![b("ab"), b("Abc"), b("b")], mk: Kind::LF, kind: NoncontiguousNFA, ci: true },
        Subject { name: "std-nnfa-empty", pats: vec![b(""), b("ab")], mk: Kind::Std, kind: NoncontiguousNFA, ci: false },
        // shortest and longest "longest pattern" among the standard subjects
        // (state leaking between searchers shows up when sizes differ)
        Subject { name: "std-cnfa-len1", pats: vec![b("x"), b("y")], mk: Kind::Std, kind: ContiguousNFA, ci: false },
        Subject { name: "std-dfa-len10", pats: vec![b("abcdefghij"), b("xy")], mk: Kind::Std, kind: DFA, ci: false },
        // packed prefilter with a pattern inside another: an earliest search
        // may legitimately return either occurrence, but always the same one
        Subject { name: "lf-dfa-packed-overlap", pats: vec![b("abcd"), b("bc"), b("xyz"), b("qrs")], mk: Kind::LF, kind: DFA, ci: false },
        // a state with four matches (match lists are linked lists in the
        // noncontiguous NFA and are walked by index in overlapping searches)
        Subject { name: "std-nnfa-suffixes", pats: vec![b("abcd"), b("bcd"), b("cd"), b("d")], mk: Kind::Std, kind: NoncontiguousNFA, ci: false },
        // a pattern whose proper prefix is followed, in the near-miss
        // haystack, by another pattern (anchored and unanchored searches pass
        // through the same non-start state and leave it differently)
        Subject { name: "std-cnfa-abc-d", pats: vec![b("abc"), b("d")], mk: Kind::Std, kind: ContiguousNFA, ci: false },
        Subject { name: "lf-nnfa-abc-d", pats: vec![b("abcx"), b("bc"), b("d")], mk: Kind::LF, kind: NoncontiguousNFA, ci: false },
    ]
}

impl Subject {
    pub fn build(&self) -> AhoCorasick {
        AhoCorasick::builder()
            .match_kind(self.mk.ac())
            .kind(Some(self.kind))
            .ascii_case_insensitive(self.ci)
            .start_kind(StartKind::Both)
            .build(&self.pats)
            .expect("subject builds")
    }
    /// haystacks: short dense, short sparse, long (>= 40 bytes: vector paths)
    pub fn hays(&self) -> [Vec<u8>; 3] {
        let mut dense = vec![];
        for p in &self.pats {
            dense.extend_from_slice(p);
            if self.ci {
                dense.extend(p.iter().map(|x| x.to_ascii_uppercase()));
            }
        }
        dense.truncate(12);
        let mut sparse = b("--");
        sparse.extend_from_slice(&self.pats[self.pats.len() - 1]);
        sparse.extend_from_slice(b"-");
        sparse.extend_from_slice(&self.pats[0]);
        let mut long = vec![b'-'; 37];
        long.extend_from_slice(&self.pats[0]);
        long.extend_from_slice(b"----");
        long.extend_from_slice(&self.pats[self.pats.len() - 1]);
        long.extend_from_slice(b"--");
        [dense, sparse, long]
    }
}

pub const NOPS: usize = 21;
static CUR_OP: Mutex<String> = Mutex::new(String::new());

pub fn op_name(op: usize) -> &'static str {
    [
        "find(dense)", "find(long)", "is_match(dense)", "is_match(no match)", "find_iter(dense)", "find_iter(long)",
        "overlapping stepwise(dense)", "stream_find_iter(sparse)", "replace_all_bytes(dense)", "replace_all_bytes(long)",
        "earliest find(sparse)", "anchored find_iter(dense)", "find(span of long)", "overlapping_iter(sparse)", "clone().find_iter(sparse)",
        "find_iter(5000 bytes)", "stream_find_iter(70000 bytes)", "find_iter(160 adjacent matches)", "earliest find(long)",
        "anchored find(near miss)", "find_iter(near miss)",
    ][op]
}

/// One operation; the result is rendered to a string (errors included, so
/// that rejected operations are comparable too).
pub fn run_op(ac: &AhoCorasick, s: &Subject, op: usize) -> String {
    let [dense, sparse, long] = s.hays();
    let fm = |m: aho_corasick::Match| format!("({},{},{})", m.pattern().as_usize(), m.start(), m.end());
    let r = catch_unwind(AssertUnwindSafe(|| -> String {
        match op {
            0 => format!("{:?}", ac.try_find(&dense).map(|o| o.map(fm)).map_err(|e| e.to_string())),
            1 => format!("{:?}", ac.try_find(&long).map(|o| o.map(fm)).map_err(|e| e.to_string())),
            2 => format!("{}", ac.is_match(&dense)),
            3 => format!("{}", ac.is_match(&b"------------------------------------------"[..])),
            4 => format!("{:?}", ac.find_iter(&dense).take(99).map(fm).collect::<Vec<_>>()),
            5 => format!("{:?}", ac.find_iter(&long).take(99).map(fm).collect::<Vec<_>>()),
            6 => {
                let mut st = OverlappingState::start();
                let mut v = vec![];
                for _ in 0..200 {
                    if let Err(e) = ac.try_find_overlapping(&dense, &mut st) {
                        return format!("ERR {}", e);
                    }
                    match st.get_match() {
                        None => break,
                        Some(m) => v.push(fm(m)),
                    }
                }
                format!("{:?}", v)
            }
            7 => match ac.try_stream_find_iter(&sparse[..]) {
                Err(e) => format!("ERR {}", e),
                Ok(it) => format!("{:?}", it.take(99).map(|x| x.map(fm).map_err(|e| e.to_string())).collect::<Vec<_>>()),
            },
            8 => {
                let rep: Vec<String> = (0..s.pats.len()).map(|i| format!("<{}>", i)).collect();
                format!("{:?}", ac.try_replace_all_bytes(&dense, &rep).map(|v| json::show(&v)).map_err(|e| e.to_string()))
            }
            9 => {
                let rep: Vec<String> = (0..s.pats.len()).map(|i| format!("<{}>", i)).collect();
                format!("{:?}", ac.try_replace_all_bytes(&long, &rep).map(|v| json::show(&v)).map_err(|e| e.to_string()))
            }
            10 => format!("{:?}", ac.try_find(Input::new(&sparse).earliest(true)).map(|o| o.map(fm)).map_err(|e| e.to_string())),
            11 => format!(
                "{:?}",
                ac.try_find_iter(Input::new(&dense).anchored(Anchored::Yes)).map(|it| it.take(99).map(fm).collect::<Vec<_>>()).map_err(|e| e.to_string())
            ),
            12 => format!("{:?}", ac.try_find(Input::new(&long).span(30..long.len() - 1)).map(|o| o.map(fm)).map_err(|e| e.to_string())),
            13 => format!("{:?}", ac.try_find_overlapping_iter(&sparse).map(|it| it.take(200).map(fm).collect::<Vec<_>>()).map_err(|e| e.to_string())),
            14 => {
                let c = ac.clone();
                format!("{:?}", c.find_iter(&sparse).take(99).map(fm).collect::<Vec<_>>())
            }
            15 | 16 => {
                // big inputs: beyond any plausible size threshold (4 KiB
                // pages, the 64 KiB stream buffer)
                let n = if op == 15 { 5000 } else { 70_000 };
                let mut big = vec![b'-'; n];
                let p0 = &s.pats[0];
                let pl = &s.pats[s.pats.len() - 1];
                for (k, at) in [17usize, 4090, 65536 - p0.len() / 2 - 1, n - 300, n - pl.len() - 1].iter().enumerate() {
                    let p = if k % 2 == 0 { p0 } else { pl };
                    if at + p.len() <= n {
                        big[*at..at + p.len()].copy_from_slice(p);
                    }
                }
                if op == 15 {
                    format!("{:?}", ac.find_iter(&big).take(99).map(fm).collect::<Vec<_>>())
                } else {
                    match ac.try_stream_find_iter(&big[..]) {
                        Err(e) => format!("ERR {}", e),
                        Ok(it) => format!("{:?}", it.take(99).map(|x| x.map(fm).map_err(|e| e.to_string())).collect::<Vec<_>>()),
                    }
                }
            }
            17 => {
                // repetition-heavy: many adjacent matches (trips adaptive
                // heuristics such as "prefilter not effective" counters)
                let mut h = vec![];
                for k in 0..160 {
                    h.extend_from_slice(&s.pats[k % s.pats.len().min(2)]);
                }
                let n = ac.find_iter(&h).take(2000).count();
                format!("{} matches", n)
            }
            18 => format!("{:?}", ac.try_find(Input::new(&long).earliest(true)).map(|o| o.map(fm)).map_err(|e| e.to_string())),
            19 | 20 => {
                // near miss: the first pattern without its last byte, then
                // the last pattern (an anchored search dies inside the first
                // pattern, an unanchored one recovers through failure links:
                // the two modes must not learn from each other)
                let p0 = &s.pats[0];
                let mut near = p0[..p0.len().saturating_sub(1)].to_vec();
                near.extend_from_slice(&s.pats[s.pats.len() - 1]);
                near.extend_from_slice(b"-");
                near.extend_from_slice(p0);
                if op == 19 {
                    format!("{:?}", ac.try_find(Input::new(&near).anchored(Anchored::Yes)).map(|o| o.map(fm)).map_err(|e| e.to_string()))
                } else {
                    format!("{:?}", ac.find_iter(&near).take(99).map(fm).collect::<Vec<_>>())
                }
            }
            _ => "?".into(),
        }
    }));
    match r {
        Ok(s) => s,
        Err(p) => format!("PANIC {}", crate::aut::panic_msg(&p)),
    }
}

fn case(s: &Subject, mode: &str, ops: &[usize], schedule: &[usize]) -> J {
    J::obj()
        .set("engine", J::s("sched"))
        .set("mode", J::s(mode))
        .set("subject", J::s(s.name))
        .set("patterns_shown", J::s(pats_show(&s.pats)))
        .set("ops", J::Arr(ops.iter().map(|&o| J::i(o as i64)).collect()))
        .set("ops_shown", J::Arr(ops.iter().map(|&o| J::s(op_name(o))).collect()))
        .set("schedule", J::Arr(schedule.iter().map(|&x| J::i(x as i64)).collect()))
}

// ---------------------------------------------------------------- self tests

fn self_tests(rep: &Report) {
    use std::sync::atomic::{AtomicUsize, Ordering};
    // (i) completeness: two independent bodies with 6 points each (+ the
    // initial point) -> C(14, 7) = 3432 executions unbounded, 2/14/86 with
    // preemption bounds 0/1/2.
    let body: Body = Arc::new(|| {
        for _ in 0..6 {
            sched_point();
        }
    });
    let mut counts = vec![];
    for bound in [0usize, 1, 2, 1000] {
        let (e, _, d) = explore(&[body.clone(), body.clone()], bound, &|| {}, &mut |_| {});
        counts.push(e);
        if d != 0 {
            rep.machinery("scheduler self-test: replay divergence".into());
        }
    }
    rep.count("selftest_executions_unbounded_7x7", counts[3]);
    if counts != vec![2, 14, 86, 3432] {
        rep.machinery(format!("scheduler completeness self-test failed: {:?} != [2, 14, 86, 3432]", counts));
    }
    // (ii) sensitivity: a racy fixture (read-modify-write across a point)
    // must be caught, first at bound 1.
    static X: AtomicUsize = AtomicUsize::new(0);
    let racy: Body = Arc::new(|| {
        for _ in 0..2 {
            let v = X.load(Ordering::SeqCst);
            sched_point();
            X.store(v + 1, Ordering::SeqCst);
            sched_point();
        }
    });
    let mut first_bound = None;
    for bound in [0usize, 1, 2] {
        let mut bad = 0u64;
        explore(&[racy.clone(), racy.clone()], bound, &|| X.store(0, Ordering::SeqCst), &mut |_| {
            if X.load(Ordering::SeqCst) != 4 {
                bad += 1;
            }
        });
        if bad > 0 && first_bound.is_none() {
            first_bound = Some(bound);
        }
    }
    rep.count("selftest_lost_update_first_bound", first_bound.unwrap_or(99) as u64);
    if first_bound != Some(1) {
        rep.machinery(format!("scheduler sensitivity self-test failed: lost update first seen at bound {:?}, expected 1", first_bound));
    }
    // (iii) determinism: one schedule replayed twice gives the same trace
    let a = run_schedule(&[body.clone(), body.clone()], &[0, 1, 0, 1, 1]);
    let b2 = run_schedule(&[body.clone(), body.clone()], &[0, 1, 0, 1, 1]);
    if a.choices != b2.choices || a.enabled != b2.enabled {
        rep.machinery("scheduler determinism self-test failed".into());
    }
}

// ---------------------------------------------------------------- the check

pub fn run(rep: &Report) -> i32 {
    let t = rep.thorough();
    aho_corasick::verif::set_sched_hook(Some(sched_point));
    self_tests(rep);
    let subs = subjects();
    // expected results on fresh searchers
    crate::report::arm("computing the results of every operation on fresh searchers (main thread)");
    let expected: Vec<Vec<String>> = subs
        .iter()
        .map(|s| {
            (0..NOPS)
                .map(|op| {
                    *CUR_OP.lock().unwrap() = format!("{} on {}", op_name(op), s.name);
                    crate::report::arm(&format!("{} on a fresh searcher {} {}", op_name(op), s.name, pats_show(&s.pats)));
                    run_op(&s.build(), s, op)
                })
                .collect()
        })
        .collect();
    crate::report::disarm();
    // a second fresh build must agree (determinism of the oracle)
    for (si, s) in subs.iter().enumerate() {
        for op in 0..NOPS {
            let again = run_op(&s.build(), s, op);
            if again != expected[si][op] {
                // nothing but earlier searches (on other searcher values)
                // distinguishes the two runs: hidden process-wide state
                rep.violation(Violation {
                    property: rep.property.clone(),
                    what: "fresh-searcher-depends-on-earlier-searches".into(),
                    case: case(s, "fresh", &[op], &[]),
                    detail: format!(
                        "{} {}: {} on a freshly built searcher returned {} the first time and {} after other searchers had been used in the process",
                        s.name, pats_show(&s.pats), op_name(op), expected[si][op], again
                    ),
                    tags: vec![("subject".into(), s.name.into())],
                });
            }
        }
    }

    // ---- part 1: histories (single thread)
    let depth = if t { 4 } else { 3 };
    struct H {
        s: usize,
        first: usize,
    }
    let mut hitems = vec![];
    for s in 0..subs.len() {
        for first in 0..NOPS {
            hitems.push(H { s, first });
        }
    }
    let hdesc = |i: usize| format!("histories of {} starting with {}", subs[hitems[i].s].name, op_name(hitems[i].first));
    par_for_desc(rep, hitems.len(), &hdesc, |ix, st| {
        let h = &hitems[ix];
        let s = &subs[h.s];
        // every sequence of length <= depth starting with `first`
        let mut seq = vec![h.first];
        loop {
            // run the sequence on one searcher built fresh for this sequence
            let ac = s.build();
            let dbg0 = format!("{:?}", ac);
            for (k, &op) in seq.iter().enumerate() {
                let got = run_op(&ac, s, op);
                st.add("history_ops", 1);
                if got != expected[h.s][op] {
                    rep.violation(Violation {
                        property: rep.property.clone(),
                        what: "history-dependent-result".into(),
                        case: case(s, "history", &seq[..=k], &[]),
                        detail: format!(
                            "{} {}: after the operations {:?}, {} returned {} but on a fresh searcher it returns {}",
                            s.name, pats_show(&s.pats), seq[..k].iter().map(|&o| op_name(o)).collect::<Vec<_>>(), op_name(op), got, expected[h.s][op]
                        ),
                        tags: vec![("subject".into(), s.name.into())],
                    });
                    break;
                }
            }
            if format!("{:?}", ac) != dbg0 {
                st.add("debug_rendering_changed", 1);
            }
            st.add("histories", 1);
            // next sequence in lexicographic order with fixed first element
            if seq.len() < depth {
                seq.push(0);
            } else {
                loop {
                    if seq.len() == 1 {
                        return;
                    }
                    let last = seq.len() - 1;
                    if seq[last] + 1 < NOPS {
                        seq[last] += 1;
                        break;
                    }
                    seq.pop();
                }
            }
        }
    });

    // ---- part 1b: histories across different searchers: (searcher A, op a)
    // then (fresh searcher B, op b); B's result must not depend on A's search
    let nsub = subs.len();
    let xdesc = |i: usize| format!("cross-searcher histories {} -> {}", subs[i / nsub].name, subs[i % nsub].name);
    par_for_desc(rep, nsub * nsub, &xdesc, |ix, st| {
        let (ai, bi) = (ix / nsub, ix % nsub);
        let (sa, sb) = (&subs[ai], &subs[bi]);
        for opa in 0..NOPS {
            let a = sa.build();
            let _ = run_op(&a, sa, opa);
            for opb in 0..NOPS {
                // a must run again before each opb only if opb could have
                // consumed the leaked state; re-running is cheap and keeps
                // every pair independent
                if opb > 0 {
                    let _ = run_op(&a, sa, opa);
                }
                let bb = sb.build();
                let got = run_op(&bb, sb, opb);
                st.add("history_ops", 2);
                st.add("cross_histories", 1);
                if got != expected[bi][opb] {
                    rep.violation(Violation {
                        property: rep.property.clone(),
                        what: "result-depends-on-other-searcher".into(),
                        case: case(sb, "cross", &[opa, opb], &[]).set("first_subject", J::s(sa.name)),
                        detail: format!(
                            "after {} on the searcher {} {}, {} on a freshly built searcher {} {} returned {} but without the earlier search it returns {}",
                            op_name(opa), sa.name, pats_show(&sa.pats), op_name(opb), sb.name, pats_show(&sb.pats), got, expected[bi][opb]
                        ),
                        tags: vec![("subject".into(), sb.name.into())],
                    });
                    return;
                }
            }
        }
    });

    // ---- part 2: interleavings of live cursors sharing one searcher
    let citems: Vec<usize> = (0..subs.len()).collect();
    let cdesc = |i: usize| format!("cursor interleavings on {}", subs[i].name);
    par_for_desc(rep, citems.len(), &cdesc, |ix, st| {
        let s = &subs[ix];
        cursor_interleavings(rep, st, s, if t { 4 } else { 3 });
    });

    // ---- free-running complement (sampling; see free_running)
    {
        crate::report::arm("free-running threads on shared searchers");
        let rounds = if t { 200 } else { 10 };
        let bad = free_running(rounds, false, 4, |_| crate::report::beat());
        crate::report::disarm();
        let mut fst = Stats::default();
        fst.add("free_running_rounds", (rounds * subs.len()) as u64);
        rep.merge(&fst);
        for (w, d) in bad.into_iter().take(3) {
            rep.violation(Violation {
                property: rep.property.clone(),
                what: "free-running-mismatch".into(),
                case: J::obj().set("engine", J::s("sched")).set("mode", J::s("free")).set("subject", J::s(subs[0].name)).set("where", J::s(w.clone())),
                detail: format!("4 free-running threads on a shared searcher / clone: {}: {}", w, d),
                tags: vec![],
            });
        }
    }

    // ---- part 3: thread schedules, in child processes (one exploration at a
    // time per process, so that explorations cannot disturb each other even
    // if the code under test had process-wide state)
    let bound = if t { 3 } else { 2 };
    aho_corasick::verif::set_sched_hook(None);
    let nitems = sched_items(t, &subs).len();
    let nchild = std::thread::available_parallelism().map(|x| x.get()).unwrap_or(4).min(16).min(nitems.max(1));
    let exe = std::env::current_exe().expect("current exe");
    let mut children = vec![];
    for c in 0..nchild {
        let child = std::process::Command::new(&exe)
            .arg("C17-sched-child")
            .arg(&rep.tier)
            .arg(c.to_string())
            .arg(nchild.to_string())
            .stdout(std::process::Stdio::piped())
            .spawn();
        match child {
            Ok(ch) => children.push(ch),
            Err(e) => rep.machinery(format!("cannot spawn schedule child: {}", e)),
        }
    }
    for ch in children {
        match ch.wait_with_output() {
            Ok(out) => {
                let text = String::from_utf8_lossy(&out.stdout);
                match text.lines().rev().find(|l| l.starts_with('{')).map(json::parse) {
                    Some(Ok(j)) => rep.import(&j),
                    _ => {
                        if out.status.code() == Some(1) && text.contains("VIOLATION") {
                            // the child's own watchdog fired: the code under test does not terminate
                            let line = text.lines().find(|l| l.contains("what=")).unwrap_or("").trim().to_string();
                            rep.violation(Violation {
                                property: rep.property.clone(),
                                what: "no-progress".into(),
                                case: J::obj().set("engine", J::s("hang")).set("tier", J::s(rep.tier.clone())).set("item", J::i(-1)).set("item_desc", J::s(line.clone())),
                                detail: format!("a schedule-exploration child made no progress: {}", line),
                                tags: vec![],
                            });
                        } else {
                            rep.machinery(format!("schedule child gave no result (status {:?})", out.status));
                        }
                    }
                }
            }
            Err(e) => rep.machinery(format!("schedule child failed: {}", e)),
        }
    }
    aho_corasick::verif::set_sched_hook(None);

    let execs = rep.get("schedules");
    let cov = J::obj()
        .set("states", J::i((execs + rep.get("histories") + rep.get("cursor_interleavings")).max(1)))
        .set("transitions", J::i((rep.get("history_ops") + rep.get("cursor_steps") + execs).max(1)))
        .set("traces_validated_against_impl", J::i(execs + rep.get("histories") + rep.get("cursor_interleavings")))
        .set("evaluations", J::i((execs + rep.get("histories") + rep.get("cursor_interleavings")).max(1)))
        .set("distinct_nontrivial", J::i(rep.get("explorations_with_real_interleaving") + rep.get("histories")))
        .set("schedules", J::i(execs))
        .set("histories", J::i(rep.get("histories")))
        .set("cross_searcher_histories", J::i(rep.get("cross_histories")))
        .set("cursor_interleavings", J::i(rep.get("cursor_interleavings")))
        .set("rule", J::s(format!(
            "{} searchers (DFA / cNFA / nNFA; memmem, start-byte, rare-byte, packed prefilters; case folding; empty pattern; longest pattern 1..10; a state with four matches) x {} operations (incl. a 5000-byte haystack and a 70000-byte stream with a match across the 64 KiB buffer boundary). (1) histories: every operation sequence of length <= {} on one searcher, and every (searcher A, op) -> (fresh searcher B, op) pair; (2) every interleaving of next()/step calls on four live cursors (FindIter, OverlappingState, stream iterator, OverlappingState on a clone) with <= {} steps each (stream: one less); (3) threads: every interleaving at the H3 scheduling points (head of each search-loop iteration, FindIter::next, prefilter / packed / Rabin-Karp entry) of 2 (3) operations on a shared searcher or a clone with <= {} preemptions, real OS threads under a token-passing scheduler, executions run to completion. Oracle everywhere: result == result on a never-used freshly built searcher. 'states' = complete executions (schedules + histories + cursor interleavings)",
            subjects().len(), NOPS, depth, if t { 4 } else { 3 }, bound
        )))
        .set("exhaustive", J::Bool(true))
        .set("bounds", J::s(format!("histories depth {}; preemption bound {} (3 threads: {}); scheduler self-tests: C(14,7)=3432 executions unbounded, 2/14/86 at bounds 0/1/2; racy fixture caught first at bound 1", depth, bound, bound - 1)))
        .set("design_ref", J::s("6, 7 (C17)"));
    if (execs == 0 || rep.get("explorations_with_real_interleaving") == 0) && rep.nviol() == 0 {
        rep.machinery("vacuous run: no exploration had more than one runnable thread at a scheduling point".into());
    }
    rep.finish(
        "model_checking",
        cov,
        &[
            "interleavings are explored at hook-point granularity (H3), not at instruction granularity; plain data races are the business of a free-running ThreadSanitizer pass, not of this scheduler",
            "the structural fact 'no interior mutability' is not claimed; the property is decided behaviourally",
        ],
    )
}


pub struct SItem {
    pub s: usize,
    pub ops: Vec<usize>,
    pub clone_second: bool,
}

pub fn sched_items(t: bool, subs: &[Subject]) -> Vec<SItem> {
    let pairs: Vec<(usize, usize)> = {
        let core = [4usize, 6, 7, 8, 5, 0, 11, 14, 2];
        let mut v = vec![];
        for (i, &a) in core.iter().enumerate() {
            for &c in &core[i..] {
                v.push((a, c));
            }
        }
        if !t {
            v.truncate(24);
        }
        v
    };
    let mut sitems = vec![];
    for s in 0..subs.len() {
        for &(a, c) in &pairs {
            sitems.push(SItem { s, ops: vec![a, c], clone_second: (a + c) % 2 == 1 });
        }
        // three threads, short operations
        sitems.push(SItem { s, ops: vec![0, 2, 10], clone_second: false });
        sitems.push(SItem { s, ops: vec![4, 6, 7], clone_second: true });
    }
    sitems
}

/// Child process: explore the schedule items i with i % n == c, one at a
/// time, and print the collected findings as one JSON line.
pub fn sched_child(tier: &str, c: usize, n: usize) -> i32 {
    let rep = Report::new("C17", tier);
    let t = rep.thorough();
    let bound = if t { 3 } else { 2 };
    EXEC_CAP.store(if t { 400_000 } else { 5_000 }, std::sync::atomic::Ordering::Relaxed);
    aho_corasick::verif::set_sched_hook(Some(sched_point));
    let subs = subjects();
    crate::report::arm("schedule child: computing expectations");
    let expected: Vec<Vec<String>> = subs
        .iter()
        .map(|s| {
            (0..NOPS)
                .map(|op| {
                    crate::report::arm(&format!("{} on a fresh searcher {} {}", op_name(op), s.name, pats_show(&s.pats)));
                    run_op(&s.build(), s, op)
                })
                .collect()
        })
        .collect();
    let sitems = sched_items(t, &subs);
    let mut stats = Stats::default();
    let st = &mut stats;
    let rep = &rep;
    for ix in (0..sitems.len()).filter(|i| i % n == c) {
        let it = &sitems[ix];
        crate::report::arm(&format!("schedules of {:?} on {}", it.ops.iter().map(|&o| op_name(o)).collect::<Vec<_>>(), subs[it.s].name));
        let s = &subs[it.s];
        // the searcher (and its clone) are rebuilt before every execution, so
        // that executions are independent of each other
        let slot: Arc<Mutex<(Arc<AhoCorasick>, Arc<AhoCorasick>)>> = {
            let a = Arc::new(s.build());
            let c2 = Arc::new((*a).clone());
            Arc::new(Mutex::new((a, c2)))
        };
        let results: Arc<Mutex<Vec<String>>> = Arc::new(Mutex::new(vec![String::new(); it.ops.len()]));
        let bodies: Vec<Body> = it
            .ops
            .iter()
            .enumerate()
            .map(|(k, &op)| {
                let slot = slot.clone();
                let use_clone = it.clone_second && k == 1;
                let s2 = s.clone();
                let res = results.clone();
                let bdy: Body = Arc::new(move || {
                    let ac = {
                        let g = slot.lock().unwrap();
                        if use_clone { g.1.clone() } else { g.0.clone() }
                    };
                    let r = run_op(&ac, &s2, op);
                    res.lock().unwrap()[k] = r;
                });
                bdy
            })
            .collect();
        // three-thread items get one preemption less
        let bnd = if it.ops.len() > 2 { bound - 1 } else { bound };
        let mut outcomes = std::collections::BTreeSet::new();
        let res2 = results.clone();
        let (execs, points, div) = explore(
            &bodies,
            bnd,
            &|| {
                for r in results.lock().unwrap().iter_mut() {
                    r.clear();
                }
                let a = Arc::new(s.build());
                let c2 = Arc::new((*a).clone());
                *slot.lock().unwrap() = (a, c2);
            },
            &mut |x| {
                crate::report::beat();
                let got = res2.lock().unwrap().clone();
                outcomes.insert(got.clone());
                for (k, &op) in it.ops.iter().enumerate() {
                    if got[k] != expected[it.s][op] {
                        rep.violation(Violation {
                            property: rep.property.clone(),
                            what: "schedule-dependent-result".into(),
                            case: case(s, "schedule", &it.ops, &x.choices).set("clone_second", J::Bool(it.clone_second)),
                            detail: format!(
                                "{} {}: threads running {:?} concurrently (schedule {:?}): {} returned {} but sequentially it returns {}",
                                s.name, pats_show(&s.pats), it.ops.iter().map(|&o| op_name(o)).collect::<Vec<_>>(), x.choices, op_name(op), got[k], expected[it.s][op]
                            ),
                            tags: vec![("subject".into(), s.name.into())],
                        });
                    }
                }
            },
        );
        st.add("schedules", execs);
        st.add("schedule_explorations", 1);
        if execs >= EXEC_CAP.load(std::sync::atomic::Ordering::Relaxed) {
            rep.machinery(format!(
                "schedule exploration of {:?} on {} abandoned after {} executions (longest execution had {} scheduling points): far more than this operation pair has on the unchanged library",
                it.ops.iter().map(|&o| op_name(o)).collect::<Vec<_>>(), s.name, execs, points
            ));
        }
        if execs > 5_000 {
            st.add("explorations_over_5k_executions", 1);
        }
        rep.set_add("largest_explorations", format!("{:08} executions: {:?} on {}", execs, it.ops.iter().map(|&o| op_name(o)).collect::<Vec<_>>(), s.name));
        st.add("max_points", points as u64);
        if points > 2 * it.ops.len() {
            st.add("explorations_with_real_interleaving", 1);
        }
        if div > 0 {
            rep.machinery(format!("schedule replay diverged {} times in {}", div, s.name));
        }
        if outcomes.len() > 1 {
            st.add("explorations_with_several_outcomes", 1);
        }
        if rep.nsamples() < 3 && ix % 41 == 7 {
            rep.sample(
                J::obj()
                    .set("subject", J::s(s.name))
                    .set("patterns", J::s(pats_show(&s.pats)))
                    .set("threads", J::Arr(it.ops.iter().map(|&o| J::s(op_name(o))).collect()))
                    .set("second_thread_uses_clone", J::Bool(it.clone_second))
                    .set("preemption_bound", J::i(bnd as i64))
                    .set("executions", J::i(execs))
                    .set("scheduling_points_in_longest_execution", J::i(points as i64))
                    .set("distinct_outcomes", J::i(outcomes.len() as i64)),
            );
        }
    
    }
    crate::report::disarm();
    rep.merge(&stats);
    aho_corasick::verif::set_sched_hook(None);
    println!("{}", rep.export().to_string());
    0
}

/// Every interleaving of steps on four live cursors sharing the searcher
/// (the fourth through a clone, which shares the automaton).
fn cursor_interleavings(rep: &Report, st: &mut Stats, s: &Subject, steps: usize) {
    let ac = s.build();
    let ac2 = ac.clone();
    let [dense, sparse, _] = s.hays();
    let fm = |m: aho_corasick::Match| format!("({},{},{})", m.pattern().as_usize(), m.start(), m.end());
    let ov_steps = |a: &AhoCorasick, h: &[u8], n: usize| -> Vec<String> {
        let mut stt = OverlappingState::start();
        let mut v = vec![];
        for _ in 0..n {
            if a.try_find_overlapping(h, &mut stt).is_err() {
                break;
            }
            match stt.get_match() {
                None => break,
                Some(m) => v.push(fm(m)),
            }
        }
        v
    };
    // sequential expectations (fresh searcher, one cursor at a time)
    let fresh = s.build();
    let exp_a: Vec<String> = fresh.find_iter(&dense).take(steps).map(fm).collect();
    let exp_b: Vec<String> = ov_steps(&fresh, &sparse, steps);
    let exp_c: Vec<String> = match fresh.try_stream_find_iter(&dense[..]) {
        Err(_) => vec![],
        Ok(it) => it.take(steps - 1).map(|x| x.map(fm).unwrap_or_else(|e| e.to_string())).collect(),
    };
    let exp_d: Vec<String> = ov_steps(&fresh, &dense, steps);
    // enumerate all interleavings of (na, nb, nc, nd) steps
    let n = [exp_a.len(), exp_b.len(), exp_c.len(), exp_d.len()];
    let mut order: Vec<u8> = vec![];
    fn rec(order: &mut Vec<u8>, left: &mut [usize; 4], f: &mut dyn FnMut(&[u8])) {
        if left.iter().all(|&x| x == 0) {
            f(order);
            return;
        }
        for w in 0..4 {
            if left[w] > 0 {
                left[w] -= 1;
                order.push(w as u8);
                rec(order, left, f);
                order.pop();
                left[w] += 1;
            }
        }
    }
    let mut run_one = |order: &[u8]| {
        let r = catch_unwind(AssertUnwindSafe(|| {
            let mut ita = ac.find_iter(&dense);
            let mut stb = OverlappingState::start();
            let mut itc = ac.try_stream_find_iter(&dense[..]).ok();
            let mut std = OverlappingState::start();
            let (mut ga, mut gb, mut gc, mut gd) = (vec![], vec![], vec![], vec![]);
            for &w in order {
                match w {
                    0 => ga.push(ita.next().map(fm).unwrap_or_else(|| "None".into())),
                    1 => {
                        let _ = ac.try_find_overlapping(&sparse, &mut stb);
                        gb.push(stb.get_match().map(fm).unwrap_or_else(|| "None".into()));
                    }
                    2 => gc.push(match itc.as_mut().and_then(|it| it.next()) {
                        Some(Ok(m)) => fm(m),
                        Some(Err(e)) => e.to_string(),
                        None => "None".into(),
                    }),
                    _ => {
                        let _ = ac2.try_find_overlapping(&dense, &mut std);
                        gd.push(std.get_match().map(fm).unwrap_or_else(|| "None".into()));
                    }
                }
            }
            (ga, gb, gc, gd)
        }));
        st.add("cursor_interleavings", 1);
        st.add("cursor_steps", order.len() as u64);
        let ok = match &r {
            Ok((ga, gb, gc, gd)) => *ga == exp_a && *gb == exp_b && *gc == exp_c && *gd == exp_d,
            Err(_) => false,
        };
        if !ok {
            rep.violation(Violation {
                property: rep.property.clone(),
                what: "cursor-interference".into(),
                case: case(s, "cursors", &order.iter().map(|&x| x as usize).collect::<Vec<_>>(), &[]),
                detail: format!(
                    "{} {}: stepping a FindIter (0), an OverlappingState (1), a stream iterator (2) and an OverlappingState on a clone (3) in the order {:?} gave {:?}; each alone gives {:?} / {:?} / {:?} / {:?}",
                    s.name, pats_show(&s.pats), order, r.map_err(|p| crate::aut::panic_msg(&p)), exp_a, exp_b, exp_c, exp_d
                ),
                tags: vec![("subject".into(), s.name.into())],
            });
        }
    };
    let mut left = n;
    rec(&mut order, &mut left, &mut run_one);
    handover(rep, st, s, steps + 2);
}

/// One paused stepwise overlapping search (a single `OverlappingState`) handed
/// back and forth between a searcher and its clone - the top-level searcher
/// and the three low-level automaton types: every assignment of the steps to
/// "original" / "clone" must give the sequence that one owner alone gives.
fn handover(rep: &Report, st: &mut Stats, s: &Subject, k: usize) {
    use aho_corasick::automaton::Automaton;
    if s.mk != Kind::Std {
        return;
    }
    let [dense, _, _] = s.hays();
    let fm = |m: aho_corasick::Match| format!("({},{},{})", m.pattern().as_usize(), m.start(), m.end());
    fn drive<A: Automaton>(a: &A, b2: &A, h: &[u8], k: usize, mask: u32, fm: &dyn Fn(aho_corasick::Match) -> String) -> Vec<String> {
        let mut stt = OverlappingState::start();
        let mut v = vec![];
        for i in 0..k {
            let who = if mask >> i & 1 == 0 { a } else { b2 };
            match who.try_find_overlapping(&Input::new(h), &mut stt) {
                Err(e) => v.push(format!("ERR {}", e)),
                Ok(()) => v.push(stt.get_match().map(fm).unwrap_or_else(|| "None".into())),
            }
        }
        v
    }
    let nn = match aho_corasick::nfa::noncontiguous::Builder::new().match_kind(s.mk.ac()).ascii_case_insensitive(s.ci).build(&s.pats) {
        Ok(n) => n,
        Err(_) => return,
    };
    let cn = aho_corasick::nfa::contiguous::Builder::new().build_from_noncontiguous(&nn);
    let df = aho_corasick::dfa::Builder::new().build_from_noncontiguous(&nn);
    let top = s.build();
    let mut check = |which: &str, f: &dyn Fn(u32) -> Vec<String>| {
        let exp = f(0);
        for mask in 1..(1u32 << k) {
            st.add("handover_sequences", 1);
            let got = catch_unwind(AssertUnwindSafe(|| f(mask)));
            if got.as_ref().ok() != Some(&exp) {
                rep.violation(Violation {
                    property: rep.property.clone(),
                    what: "overlapping-state-handover".into(),
                    case: case(s, "cursors", &[], &[]),
                    detail: format!(
                        "{} {} ({}): one OverlappingState stepped {} times on \"{}\", step i on the {} (bit i of {:#b}): got {:?}; on one owner alone {:?}",
                        s.name, pats_show(&s.pats), which, k, json::show(&dense), "original (0) or its clone (1)", mask, got.map_err(|p| crate::aut::panic_msg(&p)), exp
                    ),
                    tags: vec![("subject".into(), s.name.into())],
                });
                return;
            }
        }
    };
    {
        let (a, b2) = (&nn, nn.clone());
        check("noncontiguous NFA and its clone", &|m| drive(a, &b2, &dense, k, m, &fm));
    }
    if let Ok(c) = &cn {
        let b2 = c.clone();
        check("contiguous NFA and its clone", &|m| drive(c, &b2, &dense, k, m, &fm));
    }
    if let Ok(d) = &df {
        let b2 = d.clone();
        check("DFA and its clone", &|m| drive(d, &b2, &dense, k, m, &fm));
    }
    {
        let b2 = top.clone();
        check("AhoCorasick and its clone", &|m| {
            let mut stt = OverlappingState::start();
            let mut v = vec![];
            for i in 0..k {
                let who = if m >> i & 1 == 0 { &top } else { &b2 };
                match who.try_find_overlapping(&dense, &mut stt) {
                    Err(e) => v.push(format!("ERR {}", e)),
                    Ok(()) => v.push(stt.get_match().map(fm).unwrap_or_else(|| "None".into())),
                }
            }
            v
        });
    }
}

/// Free-running complement (NOT part of the exhaustive exploration, and
/// labelled as sampling in the evidence): the token-passing scheduler's
/// hand-offs are happens-before edges, so unsynchronised accesses to hidden
/// shared state between two hook points are invisible to it. Here the same
/// operation bodies run on really parallel threads without the hook: natively
/// (results compared with the sequential ones, `rounds` times) and, in the
/// thorough tier, once under Miri, whose data-race detector reports any pair
/// of conflicting unsynchronised accesses that occurs (`mc C17-free light`).
/// Returns the list of mismatches.
pub fn free_running(rounds: usize, light: bool, nthreads: usize, mut progress: impl FnMut(&str)) -> Vec<(String, String)> {
    aho_corasick::verif::set_sched_hook(None);
    let subs = subjects();
    let ops: Vec<usize> = (0..NOPS).filter(|&op| !(light && matches!(op, 9 | 15 | 16 | 17))).collect();
    let mut bad = vec![];
    for (si, s) in subs.iter().enumerate() {
        progress(s.name);
        // every expectation on its own never-used searcher
        let expected: Vec<String> = (0..NOPS).map(|op| if ops.contains(&op) { run_op(&s.build(), s, op) } else { String::new() }).collect();
        let expected = Arc::new(expected);
        let shared = Arc::new(s.build());
        let cloned = Arc::new((*shared).clone());
        for round in 0..rounds {
            let barrier = Arc::new(std::sync::Barrier::new(nthreads));
            let mut hs = vec![];
            for tix in 0..nthreads {
                let ac = if (tix + si + round) % 3 == 2 { cloned.clone() } else { shared.clone() };
                let (s2, exp, bar, ops2) = (s.clone(), expected.clone(), barrier.clone(), ops.clone());
                hs.push(std::thread::spawn(move || {
                    let mut out = vec![];
                    bar.wait();
                    let n = ops2.len();
                    for k in 0..n {
                        // different threads walk the operations in different orders
                        let op = match tix % 3 {
                            0 => ops2[k],
                            1 => ops2[n - 1 - k],
                            _ => ops2[(k * 7 + round) % n],
                        };
                        let got = run_op(&ac, &s2, op);
                        if got != exp[op] {
                            out.push((format!("{} / {} (thread {} of {}, round {})", s2.name, op_name(op), tix, n, round), format!("got {} but sequentially {}", got, exp[op])));
                        }
                    }
                    out
                }));
            }
            for h in hs {
                match h.join() {
                    Ok(v) => bad.extend(v),
                    Err(_) => bad.push((format!("{} round {}", s.name, round), "a thread panicked".into())),
                }
            }
            if !bad.is_empty() {
                return bad;
            }
        }
    }
    bad
}

/// `mc C17-free <light|full> <rounds>`: entry point for the Miri pass.
pub fn free_main(light: bool, rounds: usize) -> i32 {
    let bad = free_running(rounds, light, 2, |name| println!("free-running subject={}", name));
    for (w, d) in &bad {
        println!("FREE-MISMATCH {}: {}", w, d);
    }
    println!("free-running pass done: {} mismatches", bad.len());
    (!bad.is_empty()) as i32
}

pub fn replay(case: &J) -> i32 {
    let subs = subjects();
    let name = case.str_of("subject");
    let s = match subs.iter().find(|s| s.name == name) {
        Some(s) => s.clone(),
        None => return 2,
    };
    let ops: Vec<usize> = case.get("ops").and_then(|a| a.as_arr()).map_or(vec![], |a| a.iter().filter_map(|x| x.as_usize()).collect());
    let schedule: Vec<usize> = case.get("schedule").and_then(|a| a.as_arr()).map_or(vec![], |a| a.iter().filter_map(|x| x.as_usize()).collect());
    println!("subject={} patterns={} mode={} ops={:?} schedule={:?}", s.name, pats_show(&s.pats), case.str_of("mode"), ops, schedule);
    let expected: Vec<String> = (0..NOPS).map(|op| run_op(&s.build(), &s, op)).collect();
    match case.str_of("mode").as_str() {
        "free" => {
            let bad = free_running(200, false, 4, |_| {});
            for (w, d) in &bad {
                println!("  {}: {}", w, d);
            }
            println!("(free-running threads: a sampling complement; a clean rerun does not prove absence)");
            (!bad.is_empty()) as i32
        }
        "cross" => {
            let sa = match subs.iter().find(|x| x.name == case.str_of("first_subject")) {
                Some(x) => x.clone(),
                None => return 2,
            };
            let a = sa.build();
            let ra = run_op(&a, &sa, ops[0]);
            let bb = s.build();
            let got = run_op(&bb, &s, ops[1]);
            println!("  {} on {} -> {}", op_name(ops[0]), sa.name, ra);
            println!("  {} on fresh {} -> {} (without the earlier search: {})", op_name(ops[1]), s.name, got, expected[ops[1]]);
            (got != expected[ops[1]]) as i32
        }
        "history" => {
            let ac = s.build();
            let mut bad = false;
            for &op in &ops {
                let got = run_op(&ac, &s, op);
                println!("  {} -> {} (fresh: {})", op_name(op), got, expected[op]);
                bad |= got != expected[op];
            }
            bad as i32
        }
        "schedule" => {
            aho_corasick::verif::set_sched_hook(Some(sched_point));
            let shared = Arc::new(s.build());
            let cloned = Arc::new((*shared).clone());
            let results: Arc<Mutex<Vec<String>>> = Arc::new(Mutex::new(vec![String::new(); ops.len()]));
            let bodies: Vec<Body> = ops
                .iter()
                .enumerate()
                .map(|(k, &op)| {
                    let ac = if case.bool_of("clone_second") && k == 1 { cloned.clone() } else { shared.clone() };
                    let s2 = s.clone();
                    let res = results.clone();
                    let bdy: Body = Arc::new(move || {
                        let r = run_op(&ac, &s2, op);
                        res.lock().unwrap()[k] = r;
                    });
                    bdy
                })
                .collect();
            // replay twice: identical observations required
            let x1 = run_schedule(&bodies, &schedule);
            let r1 = results.lock().unwrap().clone();
            let x2 = run_schedule(&bodies, &schedule);
            let r2 = results.lock().unwrap().clone();
            aho_corasick::verif::set_sched_hook(None);
            if x1.diverged || x2.diverged || x1.choices != x2.choices {
                println!("MACHINERY-ERROR: replay diverged");
                return 2;
            }
            let mut bad = false;
            for (k, &op) in ops.iter().enumerate() {
                println!("  thread {} {} -> {} / {} (sequential: {})", k, op_name(op), r1[k], r2[k], expected[op]);
                bad |= r1[k] != expected[op] || r2[k] != expected[op];
            }
            bad as i32
        }
        _ => {
            let rep = Report::new("C17", "quick");
            let mut st = Stats::default();
            cursor_interleavings(&rep, &mut st, &s, 4);
            (rep.nviol() > 0) as i32
        }
    }
}
