//! Engine E1 `acmc`: explicit-state product exploration of the real automata
//! (through the public `Automaton` trait) against SPEC, over all 256 input
//! bytes, until the reachable product is closed. See DESIGN.md section 2.

use crate::aut::Searcher;
use crate::report::Stats;
use crate::spec::{fold, opposite, Kind, Spec, M};
use aho_corasick::automaton::{Automaton, StateID};
use aho_corasick::Anchored;
use std::collections::{HashMap, HashSet, VecDeque};

pub const STATE_CAP: usize = 200_000;

pub struct Model {
    pub spec: Spec,
    pub kind: Kind,
    pub l: usize,
    insigma: [bool; 256],
    /// bit-parallel form of the active set (used when patterns x max length
    /// fits into 128 bits): bit i*l + k <=> the last k bytes equal the first
    /// k bytes of pattern i (1 <= k < |P_i|)
    small: bool,
    eq: Vec<u128>,
    seeds: u128,
    valid: u128,
}

#[derive(Debug, Clone)]
pub struct Finding {
    pub what: &'static str,
    pub witness: Vec<u8>,
    pub anchored: bool,
    pub detail: String,
}

impl Model {
    pub fn new(pats: Vec<Vec<u8>>, kind: Kind, ci: bool) -> Model {
        let mut insigma = [false; 256];
        for p in &pats {
            for &b in p {
                insigma[b as usize] = true;
                if ci {
                    insigma[opposite(b) as usize] = true;
                }
            }
        }
        let spec = Spec::new(pats, ci);
        let l = spec.maxlen();
        let small = l >= 1 && spec.pats.len() * l <= 128;
        let mut eq = vec![0u128; if small { 256 } else { 0 }];
        let (mut seeds, mut valid) = (0u128, 0u128);
        if small {
            for (i, p) in spec.pats.iter().enumerate() {
                if p.len() >= 2 {
                    seeds |= 1u128 << (i * l);
                }
                for k in 0..p.len() {
                    if k >= 1 {
                        valid |= 1u128 << (i * l + k);
                    }
                    for b in 0..=255u8 {
                        if fold(p[k], ci) == fold(b, ci) {
                            eq[b as usize] |= 1u128 << (i * l + k);
                        }
                    }
                }
            }
        }
        Model { spec, kind, l, insigma, small, eq, seeds, valid }
    }
    /// Abstract symbol of a byte: its folded value if it occurs in a pattern
    /// (or is the opposite case of one under folding), else bottom (256).
    #[inline]
    pub fn abs(&self, b: u8) -> u16 {
        if self.insigma[b as usize] {
            fold(b, self.spec.ci) as u16
        } else {
            256
        }
    }
    /// The reference side of the product state: the set of active partial
    /// occurrences `(i, k)` (the last `k` bytes of the input equal the first
    /// `k` bytes of pattern `i`, `0 < k < |P_i|`; anchored: additionally `k`
    /// is the whole input). This is the naive simulation of the patterns, not
    /// an Aho-Corasick automaton: no failure links, no tables. Two inputs
    /// with the same active set have the same future occurrences, so it is a
    /// right congruence for SPEC (together with the normalised verdict).
    pub fn active_step(&self, act: &Active, b: u8, anchored: bool, consumed: usize) -> Active {
        if self.small {
            let cand = act.bits | if !anchored || consumed == 0 { self.seeds } else { 0 };
            return Active { bits: ((cand & self.eq[b as usize]) << 1) & self.valid, big: Vec::new() };
        }
        let act = &act.big;
        let mut out: Vec<(u32, u32)> = Vec::with_capacity(act.len() + 2);
        let ci = self.spec.ci;
        for &(i, k) in act {
            let p = &self.spec.pats[i as usize];
            let k = k as usize;
            if k + 1 < p.len() && fold(p[k], ci) == fold(b, ci) {
                out.push((i, k as u32 + 1));
            }
        }
        if !anchored || consumed == 0 {
            for (i, p) in self.spec.pats.iter().enumerate() {
                if p.len() > 1 && fold(p[0], ci) == fold(b, ci) {
                    out.push((i as u32, 1));
                }
            }
        }
        out.sort_unstable();
        Active { bits: 0, big: out }
    }
    /// Length of the longest active partial occurrence (0 if none).
    pub fn active_maxk(&self, act: &Active) -> usize {
        if self.small {
            let mut bits = act.bits;
            let mut mx = 0;
            while bits != 0 {
                let p = bits.trailing_zeros() as usize;
                mx = mx.max(p % self.l);
                bits &= bits - 1;
            }
            mx
        } else {
            act.big.iter().map(|x| x.1 as usize).max().unwrap_or(0)
        }
    }
    /// The same set computed from scratch from its definition (used to
    /// cross-check the incremental computation).
    pub fn active_scratch(&self, w: &[u8], anchored: bool) -> Active {
        let mut out: Vec<(u32, u32)> = vec![];
        let ci = self.spec.ci;
        for (i, p) in self.spec.pats.iter().enumerate() {
            for k in 1..p.len() {
                if k > w.len() || (anchored && k != w.len()) {
                    continue;
                }
                if p[..k].iter().zip(&w[w.len() - k..]).all(|(&x, &y)| fold(x, ci) == fold(y, ci)) {
                    out.push((i as u32, k as u32));
                }
            }
        }
        out.sort_unstable();
        if self.small {
            let mut bits = 0u128;
            for (i, k) in out {
                bits |= 1u128 << (i as usize * self.l + k as usize);
            }
            return Active { bits, big: Vec::new() };
        }
        Active { bits: 0, big: out }
    }
    fn clamp(&self, consumed: usize, anchored: bool) -> usize {
        if anchored {
            consumed.min(self.l + 1)
        } else {
            0
        }
    }
}

#[derive(Clone, PartialEq, Eq, Hash, Default, Debug)]
pub struct Active {
    bits: u128,
    big: Vec<(u32, u32)>,
}

impl Active {
    pub fn new() -> Active {
        Active::default()
    }
    pub fn is_empty(&self) -> bool {
        self.bits == 0 && self.big.is_empty()
    }
}

#[derive(Clone, PartialEq, Eq, Hash)]
enum Verdict {
    None,
    Open(usize, usize, usize),
    Decided(usize),
}

#[derive(Clone, PartialEq, Eq, Hash)]
struct Key {
    sid: u32,
    done: bool,
    act: Active,
    verdict: Verdict,
    consumed: usize,
}

#[inline]
fn get_match<A: Automaton>(a: &A, sid: StateID, idx: usize, at: usize) -> Result<M, String> {
    let n = a.match_len(sid);
    if idx >= n {
        return Err(format!("match state with match_len {} (index {} requested)", n, idx));
    }
    let pid = a.match_pattern(sid, idx);
    if pid.as_usize() >= a.patterns_len() {
        return Err(format!("pattern id {} out of range", pid.as_usize()));
    }
    let len = a.pattern_len(pid);
    if len > at {
        return Err(format!("match of pattern {} (len {}) reported at offset {}", pid.as_usize(), len, at));
    }
    Ok((pid.as_usize(), at - len, at))
}

fn showw(w: &[u8]) -> String {
    crate::json::show(w)
}

/// The documented search recipe (stop on dead, record on match, return early
/// for standard / earliest), explored over the closed product with SPEC.
/// Covers I-left (C01), the standard recipe (C02), I-earliest (C14), and the
/// anchored variants (C09). `wit` collects the witness haystack of every
/// explored transition group.
pub fn explore_find<A: Automaton>(
    a: &A,
    m: &Model,
    anchored: bool,
    earliest: bool,
    st: &mut Stats,
    mut wit: Option<&mut Vec<Vec<u8>>>,
) -> Result<(), Finding> {
    let anc = if anchored { Anchored::Yes } else { Anchored::No };
    let start = match a.start_state(anc) {
        Ok(s) => s,
        Err(_) => return Ok(()),
    };
    let fail = |what: &'static str, w: &[u8], detail: String| Finding { what, witness: w.to_vec(), anchored, detail };
    let earliest = earliest || m.kind == Kind::Std;
    let strict = m.kind == Kind::Std || !earliest; // equality with SPEC required
    let mut seen: HashSet<Key> = HashSet::new();
    let mut q: VecDeque<(StateID, bool, Option<M>, Vec<u8>, Active)> = VecDeque::new();
    let mut xchecks = 0u32;
    let mut mat0 = None;
    let mut done0 = false;
    if a.is_match(start) {
        mat0 = Some(get_match(a, start, 0, 0).map_err(|e| fail("bad-match-state", &[], e))?);
        if earliest {
            done0 = true;
        }
    }
    let check = |w: &[u8], act: &Active, mat: Option<M>| -> Result<Verdict, Finding> {
        let exp = m.spec.find(m.kind, w, 0, w.len(), anchored);
        if strict {
            if mat != exp {
                return Err(fail(
                    "recipe-find-mismatch",
                    w,
                    format!("recipe over real tables on \"{}\": got {:?}, SPEC {:?}", showw(w), mat, exp),
                ));
            }
        } else {
            match (mat, exp) {
                (None, None) => {}
                (Some(g), Some(e)) => {
                    if !(m.spec.is_occ(g, w, 0, w.len(), anchored) && g.2 <= e.2) {
                        return Err(fail(
                            "recipe-earliest-bad",
                            w,
                            format!("earliest recipe on \"{}\": got {:?}, normal answer {:?}", showw(w), g, e),
                        ));
                    }
                }
                _ => {
                    return Err(fail(
                        "recipe-earliest-existence",
                        w,
                        format!("earliest recipe on \"{}\": got {:?}, SPEC {:?}", showw(w), mat, exp),
                    ))
                }
            }
        }
        let pos = w.len();
        Ok(match exp {
            None => Verdict::None,
            Some((p, s, e)) => {
                // the answer can still be displaced only by an active partial
                // occurrence that starts at or before it
                if pos - m.active_maxk(act) <= s {
                    Verdict::Open(p, pos - s, pos - e)
                } else {
                    Verdict::Decided(p)
                }
            }
        })
    };
    let v0 = check(&[], &Active::new(), mat0)?;
    seen.insert(Key { sid: start.as_u32(), done: done0, act: Active::new(), verdict: v0, consumed: 0 });
    q.push_back((start, done0, mat0, vec![], Active::new()));
    st.add("states", 1);
    if done0 && earliest {
        // the search has returned on the empty haystack; every extension
        // returns the same thing by definition of the recipe: nothing to do
        // for the implementation, but SPEC must agree on every extension:
        // checked below through the generic loop (done states are extended on
        // the reference side only).
    }
    let mut gs: Vec<((u32, u16), u8)> = Vec::with_capacity(16);
    while let Some((sid, done, mat, w, act)) = q.pop_front() {
        if seen.len() > STATE_CAP {
            return Err(fail("cap", &w, "state cap hit".into()));
        }
        gs.clear();
        for b in 0..=255u8 {
            let nsid = if done { sid } else { a.next_state(anc, sid, b) };
            let key = (nsid.as_u32(), m.abs(b));
            if !gs.iter().any(|g| g.0 == key) {
                gs.push((key, b));
            }
        }
        st.add("transitions", 256);
        for gi in 0..gs.len() {
            let b = gs[gi].1;
            let mut w2 = w.clone();
            w2.push(b);
            let at = w.len();
            let (mut nsid, mut ndone, mut nmat) = (sid, done, mat);
            if !done {
                nsid = a.next_state(anc, sid, b);
                if a.is_special(nsid) {
                    if a.is_dead(nsid) {
                        ndone = true;
                        st.add("dead_reached", 1);
                    } else if a.is_match(nsid) {
                        st.add("match_states_reached", 1);
                        let mm = get_match(a, nsid, 0, at + 1).map_err(|e| fail("bad-match-state", &w2, e))?;
                        if !(anchored && mm.1 > 0) {
                            nmat = Some(mm);
                            if earliest {
                                ndone = true;
                            }
                        }
                    }
                } else if a.is_dead(nsid) || a.is_match(nsid) {
                    return Err(fail("special-flag", &w2, format!("dead/match state not flagged special after \"{}\"", showw(&w2))));
                }
            }
            if let Some(ws) = wit.as_deref_mut() {
                ws.push(w2.clone());
            }
            st.add("checked_transitions", 1);
            let act2 = m.active_step(&act, b, anchored, w.len());
            if xchecks < 64 {
                xchecks += 1;
                if act2 != m.active_scratch(&w2, anchored) {
                    return Err(fail("oracle-self-disagreement", &w2, "incremental and from-scratch active sets differ".into()));
                }
            }
            if ndone && earliest {
                // the API has returned: terminal. Final comparison.
                check(&w2, &act2, nmat)?;
                continue;
            }
            let v = check(&w2, &act2, nmat)?;
            if ndone && matches!(v, Verdict::Decided(_)) {
                continue;
            }
            if ndone && v == Verdict::None && anchored && act2.is_empty() {
                continue;
            }
            let consumed = m.clamp(w2.len(), anchored);
            let k = Key { sid: nsid.as_u32(), done: ndone, act: act2.clone(), verdict: v, consumed };
            if seen.insert(k) {
                st.add("states", 1);
                q.push_back((nsid, ndone, nmat, w2, act2));
            }
        }
    }
    Ok(())
}

/// Standard kind: the match list of every reachable state equals the set of
/// patterns that are a suffix of the input, longest first, then supply order,
/// each exactly once (I-match; C02 index 0, C03 whole list). Anchored: the
/// listed patterns whose length equals the consumed length are exactly the
/// anchored occurrences ending here and form a prefix of the list; dead is
/// never entered while an anchored occurrence is still possible (I-anch).
pub fn explore_walk<A: Automaton>(
    a: &A,
    m: &Model,
    anchored: bool,
    st: &mut Stats,
    mut wit: Option<&mut Vec<Vec<u8>>>,
) -> Result<(), Finding> {
    let anc = if anchored { Anchored::Yes } else { Anchored::No };
    let start = match a.start_state(anc) {
        Ok(s) => s,
        Err(_) => return Ok(()),
    };
    let fail = |what: &'static str, w: &[u8], detail: String| Finding { what, witness: w.to_vec(), anchored, detail };
    let list = |sid: StateID| -> Vec<usize> {
        if a.is_match(sid) {
            (0..a.match_len(sid)).map(|i| a.match_pattern(sid, i).as_usize()).collect()
        } else {
            vec![]
        }
    };
    let check = |w: &[u8], sid: StateID| -> Result<(), Finding> {
        let got = list(sid);
        if got.iter().any(|&p| p >= m.spec.pats.len()) {
            return Err(fail("walk-bad-pid", w, format!("pattern id out of range in {:?}", got)));
        }
        let got_f: Vec<usize> =
            if anchored { got.iter().copied().filter(|&p| m.spec.pats[p].len() == w.len()).collect() } else { got.clone() };
        let exp = m.spec.suffixes(w, anchored);
        if got_f != exp {
            return Err(fail(
                "walk-list-mismatch",
                w,
                format!(
                    "match list of the state reached by \"{}\" (anchored={}): got {:?} (raw {:?}), SPEC {:?}",
                    showw(w), anchored, got_f, got, exp
                ),
            ));
        }
        if anchored && !exp.is_empty() && got[..exp.len()] != exp[..] {
            return Err(fail(
                "walk-anchored-order",
                w,
                format!("anchored occurrences are not a prefix of the match list {:?} after \"{}\"", got, showw(w)),
            ));
        }
        Ok(())
    };
    let mut seen: HashSet<(u32, Active, usize)> = HashSet::new();
    let mut q = VecDeque::new();
    check(&[], start)?;
    seen.insert((start.as_u32(), Active::new(), 0));
    q.push_back((start, Vec::<u8>::new(), Active::new()));
    st.add("states", 1);
    let mut gs: Vec<((u32, u16), u8)> = Vec::with_capacity(16);
    while let Some((sid, w, act)) = q.pop_front() {
        if seen.len() > STATE_CAP {
            return Err(fail("cap", &w, "state cap hit".into()));
        }
        gs.clear();
        for b in 0..=255u8 {
            let n = a.next_state(anc, sid, b);
            let key = (n.as_u32(), m.abs(b));
            if !gs.iter().any(|g| g.0 == key) {
                gs.push((key, b));
            }
        }
        st.add("transitions", 256);
        for gi in 0..gs.len() {
            let b = gs[gi].1;
            let mut w2 = w.clone();
            w2.push(b);
            let n = a.next_state(anc, sid, b);
            st.add("checked_transitions", 1);
            if let Some(ws) = wit.as_deref_mut() {
                ws.push(w2.clone());
            }
            if a.is_dead(n) {
                st.add("dead_reached", 1);
                if !anchored {
                    return Err(fail("walk-dead-unanchored", &w2, format!("dead state in an unanchored standard walk after \"{}\"", showw(&w2))));
                }
                if m.spec.anchored_alive(&w2) {
                    return Err(fail("walk-dead-early", &w2, format!("anchored walk died after \"{}\" although a pattern can still match", showw(&w2))));
                }
                continue;
            }
            if a.is_match(n) {
                st.add("match_states_reached", 1);
            }
            check(&w2, n)?;
            let act2 = m.active_step(&act, b, anchored, w.len());
            let consumed = m.clamp(w2.len(), anchored);
            if seen.insert((n.as_u32(), act2.clone(), consumed)) {
                st.add("states", 1);
                q.push_back((n, w2, act2));
            }
        }
    }
    Ok(())
}

/// I-contract (C16): every state reachable from either start state through
/// `next_state` with any byte and either anchoring argument is valid.
pub fn explore_contract<A: Automaton>(a: &A, npats: usize, expect_start: [bool; 2], st: &mut Stats) -> Result<(), Finding> {
    use std::panic::{catch_unwind, AssertUnwindSafe};
    let fail = |what: &'static str, w: &[u8], anchored: bool, detail: String| Finding { what, witness: w.to_vec(), anchored, detail };
    let mut seen: HashMap<u32, ()> = HashMap::new();
    let mut q: VecDeque<(StateID, Vec<u8>, bool)> = VecDeque::new();
    let mut supported = 0;
    for anchored in [false, true] {
        let anc = if anchored { Anchored::Yes } else { Anchored::No };
        match catch_unwind(AssertUnwindSafe(|| a.start_state(anc))) {
            Err(p) => return Err(fail("contract-panic", &[], anchored, format!("start_state panicked: {}", crate::aut::panic_msg(&p)))),
            Ok(Err(_)) => {
                if expect_start[anchored as usize] {
                    return Err(fail("contract-start-state", &[], anchored, format!("start_state(anchored={}) failed although this anchoring mode is supported by the configuration", anchored)));
                }
            }
            Ok(Ok(s)) => {
                if !expect_start[anchored as usize] {
                    return Err(fail("contract-start-state", &[], anchored, format!("start_state(anchored={}) succeeded although this anchoring mode is not supported by the configuration", anchored)));
                }
                supported += 1;
                if seen.insert(s.as_u32(), ()).is_none() {
                    q.push_back((s, vec![], anchored));
                }
            }
        }
    }
    if supported == 0 {
        return Err(fail("contract-no-start", &[], false, "no anchoring mode has a start state".into()));
    }
    while let Some((sid, w, wanch)) = q.pop_front() {
        st.add("states", 1);
        if seen.len() > STATE_CAP {
            return Err(fail("cap", &w, wanch, "state cap hit".into()));
        }
        // state predicates
        let r = catch_unwind(AssertUnwindSafe(|| -> Result<(), String> {
            let dead = a.is_dead(sid);
            let mat = a.is_match(sid);
            let special = a.is_special(sid);
            let startf = a.is_start(sid);
            if (dead || mat) && !special {
                return Err(format!("state is dead={} match={} but not special", dead, mat));
            }
            if special && !(dead || mat || startf) {
                return Err("state is special but neither dead, match nor start".into());
            }
            if dead && mat {
                return Err("state is both dead and match".into());
            }
            if mat {
                let n = a.match_len(sid);
                if n < 1 {
                    return Err("match state lists no pattern".into());
                }
                for i in 0..n {
                    let pid = a.match_pattern(sid, i).as_usize();
                    if pid >= npats || pid >= a.patterns_len() {
                        return Err(format!("match state lists pattern id {} (patterns_len {})", pid, npats));
                    }
                }
                st.add("match_states_reached", 1);
            }
            if dead {
                st.add("dead_reached", 1);
                for anchored in [false, true] {
                    let anc = if anchored { Anchored::Yes } else { Anchored::No };
                    for b in 0..=255u8 {
                        if !a.is_dead(a.next_state(anc, sid, b)) {
                            return Err(format!("dead state is not absorbing on byte {:#04x} (anchored={})", b, anchored));
                        }
                    }
                }
            }
            Ok(())
        }));
        match r {
            Err(p) => return Err(fail("contract-panic", &w, wanch, format!("state predicate panicked after \"{}\": {}", showw(&w), crate::aut::panic_msg(&p)))),
            Ok(Err(e)) => return Err(fail("contract-state", &w, wanch, format!("after \"{}\": {}", showw(&w), e))),
            Ok(Ok(())) => {}
        }
        for anchored in [false, true] {
            let anc = if anchored { Anchored::Yes } else { Anchored::No };
            let r = catch_unwind(AssertUnwindSafe(|| {
                let mut out = [StateID::ZERO; 256];
                for b in 0..=255u8 {
                    out[b as usize] = a.next_state(anc, sid, b);
                }
                out
            }));
            st.add("transitions", 256);
            match r {
                Ok(out) => {
                    for b in 0..=255u8 {
                        let n = out[b as usize];
                        if seen.insert(n.as_u32(), ()).is_none() {
                            let mut w2 = w.clone();
                            w2.push(b);
                            q.push_back((n, w2, wanch));
                        }
                    }
                }
                Err(_) => {
                    // find the byte
                    for b in 0..=255u8 {
                        if let Err(p) = catch_unwind(AssertUnwindSafe(|| a.next_state(anc, sid, b))) {
                            let mut w2 = w.clone();
                            w2.push(b);
                            return Err(fail(
                                "contract-panic",
                                &w2,
                                wanch,
                                format!(
                                    "next_state(anchored={}, state after \"{}\", {:#04x}) panicked: {}",
                                    anchored, showw(&w), b, crate::aut::panic_msg(&p)
                                ),
                            ));
                        }
                    }
                }
            }
        }
    }
    Ok(())
}

/// I-work (C19): weighted state graph, weight of an edge = failure
/// transitions followed by that single `next_state` call minus one. The
/// longest path from the unanchored start state must be <= 0 (and converge),
/// so for every haystack of every length, at every prefix, failure
/// traversals <= transitions. Returns (states, edges, max failure steps of a
/// single call).
pub fn explore_work<A: Automaton>(a: &A, is_dfa: bool, st: &mut Stats) -> Result<(usize, usize, u64), Finding> {
    let fail = |what: &'static str, w: &[u8], detail: String| Finding { what, witness: w.to_vec(), anchored: false, detail };
    let mut res = (0usize, 0usize, 0u64);
    for anchored in [false, true] {
        let anc = if anchored { Anchored::Yes } else { Anchored::No };
        let start = match a.start_state(anc) {
            Ok(s) => s,
            Err(_) => continue,
        };
        let mut idx: HashMap<u32, usize> = HashMap::new();
        let mut sids: Vec<StateID> = vec![start];
        let mut wits: Vec<Vec<u8>> = vec![vec![]];
        idx.insert(start.as_u32(), 0);
        let mut edges: Vec<(usize, usize, i64, u8)> = vec![];
        let mut i = 0;
        let mut maxf = 0u64;
        while i < sids.len() {
            let sid = sids[i];
            for b in 0..=255u8 {
                let before = aho_corasick::verif::counters().fail_steps;
                let n = a.next_state(anc, sid, b);
                let f = aho_corasick::verif::counters().fail_steps - before;
                maxf = maxf.max(f);
                if is_dfa && f != 0 {
                    let mut w = wits[i].clone();
                    w.push(b);
                    return Err(fail("work-unexpected-fail", &w, format!("{} failure transitions followed where none are possible (dfa={}, anchored={})", f, is_dfa, anchored)));
                }
                let j = match idx.get(&n.as_u32()) {
                    Some(&j) => j,
                    None => {
                        let j = sids.len();
                        idx.insert(n.as_u32(), j);
                        sids.push(n);
                        let mut w = wits[i].clone();
                        w.push(b);
                        wits.push(w);
                        j
                    }
                };
                edges.push((i, j, f as i64 - 1, b));
            }
            i += 1;
            if sids.len() > STATE_CAP {
                return Err(fail("cap", &[], "state cap hit".into()));
            }
        }
        st.add("states", sids.len() as u64);
        st.add("transitions", edges.len() as u64);
        res.0 += sids.len();
        res.1 += edges.len();
        res.2 = res.2.max(maxf);
        // longest path (Bellman-Ford, maximising)
        let n = sids.len();
        let mut d = vec![i64::MIN; n];
        d[0] = 0;
        let mut changed = true;
        let mut rounds = 0;
        while changed {
            changed = false;
            rounds += 1;
            for &(u, v, wgt, _) in &edges {
                if d[u] != i64::MIN && d[u] + wgt > d[v] {
                    d[v] = d[u] + wgt;
                    changed = true;
                }
            }
            if rounds > n + 1 {
                return Err(fail(
                    "work-positive-cycle",
                    &wits[0],
                    "the state graph has a cycle on which failure traversals exceed transitions (unbounded work per byte)".into(),
                ));
            }
        }
        for &(u, v, wgt, b) in &edges {
            let _ = v;
            if d[u] != i64::MIN && d[u] + wgt > 0 {
                let mut w = wits[u].clone();
                w.push(b);
                return Err(fail(
                    "work-excess",
                    &w,
                    format!(
                        "a haystack ending in \"{}\" makes the automaton follow more failure transitions than it makes transitions (excess {})",
                        showw(&w), d[u] + wgt
                    ),
                ));
            }
        }
    }
    Ok(res)
}

/// I-bisim (C04): advance all representations in lock-step from the start
/// state over all 256 bytes until the joint reachable set is closed, and
/// compare, in every joint state, what a search can observe. No SPEC.
pub fn explore_joint(
    auts: &[&Searcher],
    names: &[String],
    kind: Kind,
    l: usize,
    anchored: bool,
    st: &mut Stats,
) -> Result<(), Finding> {
    let anc = if anchored { Anchored::Yes } else { Anchored::No };
    let fail = |what: &'static str, w: &[u8], detail: String| Finding { what, witness: w.to_vec(), anchored, detail };
    const STOPPED: u32 = u32::MAX;
    // components that support this anchoring mode
    let mut comps: Vec<usize> = vec![];
    let mut start: Vec<u32> = vec![];
    for (i, s) in auts.iter().enumerate() {
        let r = crate::with_aut!(s, a => a.start_state(anc).ok().map(|x| x.as_u32()), None);
        if let Some(x) = r {
            comps.push(i);
            start.push(x);
        }
    }
    if comps.len() < 2 {
        return Ok(());
    }
    let next = |c: usize, sid: u32, b: u8| -> u32 {
        let s = StateID::new(sid as usize).unwrap();
        crate::with_aut!(auts[comps[c]], a => {
            let n = a.next_state(anc, s, b);
            if a.is_dead(n) { STOPPED } else { n.as_u32() }
        }, STOPPED)
    };
    // observation of component c in state sid after `consumed` bytes
    let list = |c: usize, sid: u32, consumed: usize| -> Vec<(usize, usize)> {
        if sid == STOPPED {
            return vec![];
        }
        let s = StateID::new(sid as usize).unwrap();
        crate::with_aut!(auts[comps[c]], a => {
            if !a.is_match(s) { vec![] } else {
                (0..a.match_len(s)).map(|i| { let p = a.match_pattern(s, i); (p.as_usize(), a.pattern_len(p)) })
                    .filter(|&(_, len)| !anchored || len == consumed).collect()
            }
        }, vec![])
    };
    type Rec = Option<(usize, usize)>; // (pid, age = pos - end, clamped)
    #[derive(Clone, PartialEq, Eq, Hash)]
    struct JKey(Vec<u32>, Rec, usize);
    let mut seen: HashSet<JKey> = HashSet::new();
    let mut q: VecDeque<(Vec<u32>, Rec, usize, Vec<u8>)> = VecDeque::new();
    // initial observation
    let obs0: Vec<Vec<(usize, usize)>> = (0..comps.len()).map(|c| list(c, start[c], 0)).collect();
    let rec0: Rec = match kind {
        Kind::Std => None,
        _ => obs0[0].first().map(|&(p, _)| (p, 0)),
    };
    for c in 1..comps.len() {
        let same = if kind == Kind::Std { obs0[c] == obs0[0] } else { obs0[c].first() == obs0[0].first() };
        if !same {
            return Err(fail("bisim-start", &[], format!("start states disagree: {} reports {:?}, {} reports {:?}", names[comps[0]], obs0[0], names[comps[c]], obs0[c])));
        }
    }
    seen.insert(JKey(start.clone(), rec0, 0));
    q.push_back((start, rec0, 0, vec![]));
    st.add("states", 1);
    let mut succ: HashMap<Vec<u32>, u8> = HashMap::new();
    while let Some((sids, rec, consumed, w)) = q.pop_front() {
        if seen.len() > STATE_CAP {
            return Err(fail("cap", &w, "state cap hit".into()));
        }
        succ.clear();
        for b in 0..=255u8 {
            let v: Vec<u32> = (0..comps.len()).map(|c| if sids[c] == STOPPED { STOPPED } else { next(c, sids[c], b) }).collect();
            succ.entry(v).or_insert(b);
        }
        st.add("transitions", 256 * comps.len() as u64);
        let mut gs: Vec<(Vec<u32>, u8)> = succ.iter().map(|(k, v)| (k.clone(), *v)).collect();
        gs.sort_by_key(|g| g.1);
        for (v, b) in gs {
            let mut w2 = w.clone();
            w2.push(b);
            let nc = (consumed + 1).min(l + 1);
            st.add("checked_transitions", 1);
            // what each component lets a search observe after this byte
            let obs: Vec<Vec<(usize, usize)>> = (0..comps.len()).map(|c| list(c, v[c], consumed + 1)).collect();
            let nrec: Rec;
            if kind == Kind::Std {
                for c in 1..comps.len() {
                    if obs[c] != obs[0] {
                        return Err(fail(
                            "bisim-match-list",
                            &w2,
                            format!(
                                "after \"{}\" (anchored={}): {} reports matches (pid,len) {:?} but {} reports {:?}",
                                showw(&w2), anchored, names[comps[0]], obs[0], names[comps[c]], obs[c]
                            ),
                        ));
                    }
                }
                nrec = None;
            } else {
                // recorded match of the recipe: replaced by the first listed
                // (admissible) match of a match state; kept otherwise, also
                // after the component has stopped.
                let upd = |c: usize| -> Rec {
                    match obs[c].first() {
                        Some(&(p, _)) => Some((p, 0)),
                        None => rec.map(|(p, age)| (p, (age + 1).min(l + 1))),
                    }
                };
                let r0 = upd(0);
                for c in 1..comps.len() {
                    let rc = upd(c);
                    if rc != r0 {
                        return Err(fail(
                            "bisim-recorded-match",
                            &w2,
                            format!(
                                "after \"{}\" (anchored={}): the search over {} has recorded (pid, bytes since end) {:?} but over {} {:?}",
                                showw(&w2), anchored, names[comps[0]], r0, names[comps[c]], rc
                            ),
                        ));
                    }
                }
                nrec = r0;
            }
            if v.iter().all(|&x| x == STOPPED) {
                st.add("dead_reached", 1);
                continue;
            }
            if obs[0].first().is_some() {
                st.add("match_states_reached", 1);
            }
            let k = JKey(v.clone(), nrec, if anchored { nc } else { 0 });
            if seen.insert(k) {
                st.add("states", 1);
                q.push_back((v, nrec, if anchored { nc } else { 0 }, w2));
            }
        }
    }
    Ok(())
}

/// The caller-written search loop from the `Automaton` documentation
/// (unanchored or anchored), on a concrete haystack span.
pub fn recipe_find<A: Automaton>(a: &A, h: &[u8], s: usize, e: usize, anchored: bool, earliest: bool) -> Result<Option<M>, String> {
    if s > e {
        return Ok(None);
    }
    let anc = if anchored { Anchored::Yes } else { Anchored::No };
    let mut sid = a.start_state(anc).map_err(|e| format!("ERR: {}", e))?;
    let earliest = earliest || a.match_kind() == aho_corasick::MatchKind::Standard;
    let mut mat = None;
    if a.is_match(sid) {
        mat = Some(get_match(a, sid, 0, s)?);
        if earliest {
            return Ok(mat);
        }
    }
    for at in s..e {
        sid = a.next_state(anc, sid, h[at]);
        if a.is_special(sid) {
            if a.is_dead(sid) {
                break;
            } else if a.is_match(sid) {
                let m = get_match(a, sid, 0, at + 1)?;
                if !(anchored && m.1 > s) {
                    mat = Some(m);
                    if earliest {
                        return Ok(mat);
                    }
                }
            }
        }
    }
    Ok(mat)
}
