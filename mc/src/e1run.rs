//! Driver for the E1 family of checks: for every model (pattern list x match
//! kind x folding) build the representations, explore the closed product of
//! the real tables with SPEC (or with each other), then replay witnesses and
//! the bounded-exhaustive "layer 2" haystack/span space through the real
//! public APIs.

use crate::api::{self, Api, ModelCtx};
use crate::aut::{self, low_reps, top_reps, Cfg, Rep, Searcher};
use crate::e1::{self, Finding, Model};
use crate::json::{self, J};
use crate::report::{par_for, pats_j, pats_show, Report, Stats, Violation};
use crate::spec::Kind;
use crate::universe::{self, Pats};

#[derive(Clone, Copy, Debug, PartialEq, Eq)]
pub enum Explore {
    /// recipe vs SPEC (leftmost: I-left; standard: first match)
    Find { anchored: bool, earliest: bool },
    /// standard: match lists vs SPEC
    Walk { anchored: bool },
    Contract,
    Work,
    Joint { anchored: bool },
}

impl Explore {
    pub fn name(&self) -> String {
        match self {
            Explore::Find { anchored, earliest } => format!("find:anchored={}:earliest={}", *anchored as u8, *earliest as u8),
            Explore::Walk { anchored } => format!("walk:anchored={}", *anchored as u8),
            Explore::Contract => "contract".into(),
            Explore::Work => "work".into(),
            Explore::Joint { anchored } => format!("joint:anchored={}", *anchored as u8),
        }
    }
    pub fn parse(s: &str) -> Option<Explore> {
        let a = s.contains("anchored=1");
        let e = s.contains("earliest=1");
        Some(match s.split(':').next()? {
            "find" => Explore::Find { anchored: a, earliest: e },
            "walk" => Explore::Walk { anchored: a },
            "contract" => Explore::Contract,
            "work" => Explore::Work,
            "joint" => Explore::Joint { anchored: a },
            _ => return None,
        })
    }
}

#[derive(Clone, Copy, PartialEq, Eq, Debug)]
pub enum ApiMode {
    None,
    Spec,
    /// all searchers with the same prefilter setting must agree
    Diff,
    /// recipe (harness-written loop) vs built-in try_find on low-level types
    Recipe,
    /// only the work counters are judged (C19)
    Counters,
}

#[derive(Clone)]
pub struct Opts {
    pub explore: Vec<Explore>,
    pub low_pre: Vec<bool>,
    pub top: bool,
    pub api_mode: ApiMode,
    pub apis: Vec<Api>,
    pub api_anchored: Vec<bool>,
    pub layer2_budget: usize,
    pub layer2_cap: usize,
    pub span_len: usize,
    /// check the H2 work counters after every API call (C19)
    pub counters: bool,
    /// also replay long haystacks (filler^i . pattern . filler^j around the
    /// vector widths) so that prefilter / packed paths inside the searchers run
    pub long_templates: bool,
}

#[derive(Clone)]
pub struct ModelDef {
    pub name: String,
    pub pats: Pats,
    pub kind: Kind,
    pub ci: bool,
}

pub fn defs(name: &str, lists: Vec<Pats>, kinds: &[Kind], ci: bool) -> Vec<ModelDef> {
    let mut v = vec![];
    for (i, l) in lists.into_iter().enumerate() {
        for &k in kinds {
            v.push(ModelDef { name: format!("{}#{}", name, i), pats: l.clone(), kind: k, ci });
        }
    }
    v
}

pub fn defs_named(lists: Vec<(String, Pats)>, kinds: &[Kind], ci: bool) -> Vec<ModelDef> {
    let mut v = vec![];
    for (n, l) in lists {
        for &k in kinds {
            v.push(ModelDef { name: n.clone(), pats: l.clone(), kind: k, ci });
        }
    }
    v
}

fn finding_violation(rep: &Report, d: &ModelDef, cfg: &str, ex: &Explore, f: &Finding) -> Violation {
    Violation {
        property: rep.property.clone(),
        what: f.what.to_string(),
        case: J::obj()
            .set("engine", J::s("table"))
            .set("model", J::s(d.name.clone()))
            .set("patterns", pats_j(&d.pats))
            .set("patterns_shown", J::s(pats_show(&d.pats)))
            .set("kind", J::s(d.kind.name()))
            .set("ci", J::Bool(d.ci))
            .set("cfg", J::s(cfg))
            .set("explore", J::s(ex.name()))
            .set("witness", J::s(json::hex(&f.witness)))
            .set("witness_shown", J::s(json::show(&f.witness)))
            .set("anchored", J::Bool(f.anchored)),
        detail: format!("{} {} ci={} {} [{}]: {}", pats_show(&d.pats), d.kind.name(), d.ci, cfg, ex.name(), f.detail),
        tags: vec![
            ("kind".into(), d.kind.name().into()),
            ("ci".into(), d.ci.to_string()),
            ("cfg".into(), cfg.to_string()),
            ("explore".into(), ex.name()),
            ("anchored".into(), f.anchored.to_string()),
            ("has_empty_pattern".into(), d.pats.iter().any(|p| p.is_empty()).to_string()),
        ],
    }
}

fn run_explore(
    cfg: &Cfg,
    sr: &Searcher,
    m: &Model,
    ex: &Explore,
    st: &mut Stats,
    wit: Option<&mut Vec<Vec<u8>>>,
) -> Result<(), Finding> {
    let is_dfa = matches!(sr, Searcher::D(_));
    let expect_start = [cfg.supports(false), cfg.supports(true)];
    let r = std::panic::catch_unwind(std::panic::AssertUnwindSafe(|| -> Result<(), Finding> {
        match *ex {
            Explore::Find { anchored, earliest } => crate::with_aut!(sr, a => e1::explore_find(a, m, anchored, earliest, st, wit), Ok(())),
            Explore::Walk { anchored } => crate::with_aut!(sr, a => e1::explore_walk(a, m, anchored, st, wit), Ok(())),
            Explore::Contract => crate::with_aut!(sr, a => e1::explore_contract(a, m.spec.pats.len(), expect_start, st), Ok(())),
            Explore::Work => crate::with_aut!(sr, a => e1::explore_work(a, is_dfa, st).map(|r| { st.add("max_fail_steps_single_call", 0); let _ = r; }), Ok(())),
            Explore::Joint { .. } => Ok(()),
        }
    }));
    match r {
        Ok(x) => x,
        Err(p) => {
            // a panic inside the real automaton: localise it with the
            // contract explorer, which wraps every call
            let msg = aut::panic_msg(&p);
            let mut st2 = Stats::default();
            let loc = crate::with_aut!(sr, a => e1::explore_contract(a, m.spec.pats.len(), expect_start, &mut st2), Ok(()));
            match loc {
                Err(f) => Err(f),
                Ok(()) => Err(Finding { what: "panic", witness: vec![], anchored: false, detail: format!("panic during exploration: {}", msg) }),
            }
        }
    }
}

pub fn run(rep: &Report, models: &[ModelDef], o: &Opts) {
    let low: Vec<Cfg> = o.low_pre.iter().flat_map(|&pre| low_reps().into_iter().map(move |rep| Cfg { rep, pre })).collect();
    let top: Vec<Cfg> = if o.top {
        o.low_pre.iter().flat_map(|&pre| top_reps().into_iter().map(move |rep| Cfg { rep, pre })).collect()
    } else {
        vec![]
    };
    rep.count("models_planned", models.len() as u64);
    par_for(rep, models.len(), |i, st| {
        let d = &models[i];
        let mut ctx = ModelCtx::new(&d.name, &d.pats, d.kind, d.ci);
        let mut cfgs = low.clone();
        cfgs.extend(top.iter().cloned());
        cfgs.retain(|c| c.applicable(d.kind, d.ci));
        // the bulk universes of the thorough tier (U2: 8 626 lists, Uci: 8 372) are stepped
        // with the 15 table-level representations and the top-level ones; the
        // builder-path representations (own builders, independent depths,
        // plain constructors) are exercised on every other universe
        if d.name.starts_with("U2") || (rep.thorough() && d.name.starts_with("Uci#")) {
            cfgs.retain(|c| !matches!(c.rep, aut::Rep::CB { .. } | aut::Rep::DB { .. } | aut::Rep::CX { .. } | aut::Rep::New { .. }));
        }
        if let Err((c, e)) = ctx.build(&cfgs) {
            rep.violation(Violation {
                property: rep.property.clone(),
                what: "build-failed".into(),
                case: ctx.case(&c, Api::Find, &[], 0, 0, false),
                detail: format!("{} {} ci={} {}: {}", pats_show(&d.pats), d.kind.name(), d.ci, c.name(), e),
                tags: ctx.tags(&c, Api::Find, false),
            });
            return;
        }
        st.add("models", 1);
        let m = Model::new(d.pats.clone(), d.kind, d.ci);
        let mut witnesses: Vec<Vec<u8>> = vec![];
        let mut first = true;
        // --- table exploration, every low-level representation
        for (cfg, sr) in ctx.searchers.iter().filter(|(c, _)| c.is_low()) {
            for ex in &o.explore {
                match ex {
                    Explore::Joint { .. } => continue,
                    Explore::Walk { .. } if d.kind != Kind::Std => continue,
                    Explore::Find { earliest: true, .. } if d.kind == Kind::Std => continue,
                    _ => {}
                }
                let w = if first { Some(&mut witnesses) } else { None };
                st.add("explorations", 1);
                if let Err(f) = run_explore(cfg, sr, &m, ex, st, w) {
                    if f.what == "cap" || f.what == "oracle-self-disagreement" {
                        rep.machinery(format!("{} on {} {} {}", f.what, pats_show(&d.pats), cfg.name(), ex.name()));
                    } else {
                        rep.violation(finding_violation(rep, d, &cfg.name(), ex, &f));
                    }
                }
            }
            first = false;
        }
        // --- lock-step product of all low-level representations (C04)
        for ex in &o.explore {
            if let Explore::Joint { anchored } = ex {
                for &pre in &o.low_pre {
                    let group: Vec<(&Cfg, &Searcher)> =
                        ctx.searchers.iter().filter(|(c, _)| c.is_low() && c.pre == pre).map(|(c, s)| (c, s)).collect();
                    let auts: Vec<&Searcher> = group.iter().map(|g| g.1).collect();
                    let names: Vec<String> = group.iter().map(|g| g.0.name()).collect();
                    st.add("explorations", 1);
                    let r = std::panic::catch_unwind(std::panic::AssertUnwindSafe(|| {
                        e1::explore_joint(&auts, &names, d.kind, m.l, *anchored, st)
                    }));
                    match r {
                        Ok(Ok(())) => {}
                        Ok(Err(f)) => {
                            if f.what == "cap" {
                                rep.machinery(format!("cap on joint {} ", pats_show(&d.pats)));
                            } else {
                                rep.violation(finding_violation(rep, d, &format!("joint:pre={}", pre as u8), ex, &f));
                            }
                        }
                        Err(p) => rep.violation(finding_violation(
                            rep,
                            d,
                            &format!("joint:pre={}", pre as u8),
                            ex,
                            &Finding { what: "panic", witness: vec![], anchored: *anchored, detail: format!("panic: {}", aut::panic_msg(&p)) },
                        )),
                    }
                }
            }
        }
        if o.api_mode == ApiMode::None {
            if rep.nsamples() < 4 && d.pats.len() >= 2 && i % 13 == 5 {
                rep.sample(sample_of(d, &ctx, &witnesses, &[], 0));
            }
            return;
        }
        // --- conformance: witnesses and layer 2 through the real APIs
        witnesses.sort();
        witnesses.dedup();
        let alpha = universe::hay_alpha(&d.pats, d.ci);
        let n = universe::len_for_budget(alpha.len(), o.layer2_budget, o.layer2_cap);
        let mut case = |h: &[u8], s: usize, e: usize, st: &mut Stats| {
            st.add("api_cases", 1);
            for &anchored in &o.api_anchored {
                if o.counters {
                    aho_corasick::verif::reset_counters();
                }
                match o.api_mode {
                    ApiMode::Spec => ctx.check_spec(rep, st, &o.apis, h, s, e, anchored),
                    ApiMode::Diff => {
                        for &pre in &o.low_pre {
                            check_diff_group(&ctx, rep, st, &o.apis, h, s, e, anchored, pre);
                        }
                    }
                    ApiMode::Recipe => check_recipe(&ctx, rep, st, h, s, e, anchored),
                    ApiMode::None | ApiMode::Counters => {}
                }
                if o.counters {
                    check_counters(&ctx, rep, st, &o.apis, h, s, e, anchored);
                }
            }
        };
        for w in &witnesses {
            st.add("witness_replays", 1);
            case(w, 0, w.len(), st);
            // the witness embedded in bottom bytes, searched as a sub-span
            if w.len() <= 12 && alpha.len() < 256 {
                let bt = universe::bottom(&d.pats);
                let mut h = vec![bt; 2];
                h.extend_from_slice(w);
                h.extend_from_slice(&[bt; 2]);
                case(&h, 0, h.len(), st);
                case(&h, 2, 2 + w.len(), st);
            }
        }
        api::layer2(&alpha, n, o.span_len.min(n), |h, s, e| case(h, s, e, st));
        // haystacks long enough for the vector code of prefilters, with the
        // patterns at offsets around the vector widths
        if o.long_templates && alpha.len() < 256 && d.pats.iter().any(|p| !p.is_empty()) {
            let bt = universe::bottom(&d.pats);
            let mut h: Vec<u8> = Vec::with_capacity(128);
            for p in d.pats.iter().filter(|p| !p.is_empty() && p.len() <= 24).take(3) {
                for &i in &[0usize, 1, 15, 16, 17, 31, 32, 33, 47] {
                    for &j in &[0usize, 1, 16, 33] {
                        h.clear();
                        h.extend(std::iter::repeat(bt).take(i));
                        h.extend_from_slice(p);
                        h.extend(std::iter::repeat(bt).take(j));
                        st.add("long_template_cases", 1);
                        case(&h, 0, h.len(), st);
                        if i > 0 {
                            case(&h, i, h.len(), st);
                            case(&h, i - 1, i + p.len(), st);
                        }
                    }
                }
            }
            // long patterns (the 256-byte limits of the rare-byte prefilter):
            // a few offsets; alone, followed by an occurrence of another
            // pattern, and (case-insensitive models) in the opposite case
            for (pi, p) in d.pats.iter().enumerate().filter(|(_, p)| p.len() > 24 && p.len() <= 600).take(3) {
                let mut variants: Vec<Vec<u8>> = vec![p.clone()];
                if d.ci {
                    variants.push(p.iter().map(|&x| crate::spec::opposite(x)).collect());
                    let mut m = p.clone();
                    m[0] = crate::spec::opposite(m[0]);
                    variants.push(m);
                }
                for (qi, q) in d.pats.iter().enumerate().filter(|(_, q)| !q.is_empty() && q.len() <= 24).take(2) {
                    if qi != pi {
                        let mut x = p.clone();
                        x.extend(std::iter::repeat(bt).take(3));
                        x.extend_from_slice(q);
                        variants.push(x);
                    }
                }
                for v in &variants {
                    for &i in &[0usize, 1, 2, 17, 40] {
                        for &j in &[0usize, 1, 30] {
                            h.clear();
                            h.extend(std::iter::repeat(bt).take(i));
                            h.extend_from_slice(v);
                            h.extend(std::iter::repeat(bt).take(j));
                            st.add("long_template_cases", 1);
                            case(&h, 0, h.len(), st);
                            if i > 0 {
                                case(&h, i, h.len(), st);
                            }
                        }
                    }
                }
            }
        }
        st.add("layer2_maxlen_sum", n as u64);
        if rep.nsamples() < 4 && d.pats.len() >= 2 && i % 13 == 5 {
            rep.sample(sample_of(d, &ctx, &witnesses, &alpha, n));
        }
    });
}

fn sample_of(d: &ModelDef, ctx: &ModelCtx, witnesses: &[Vec<u8>], alpha: &[u8], n: usize) -> J {
    let mut j = J::obj()
        .set("model", J::s(d.name.clone()))
        .set("patterns", J::s(pats_show(&d.pats)))
        .set("kind", J::s(d.kind.name()))
        .set("ci", J::Bool(d.ci))
        .set("representations", J::Arr(ctx.searchers.iter().take(6).map(|(c, _)| J::s(c.name())).collect()))
        .set("representations_total", J::i(ctx.searchers.len() as i64))
        .set("actions", J::s("all 256 byte values from every product state"));
    if let Some(w) = witnesses.iter().max_by_key(|w| w.len()) {
        j.put("witness_haystacks", J::i(witnesses.len() as i64));
        j.put("deepest_witness", J::s(json::show(w)));
    }
    if !alpha.is_empty() {
        j.put("layer2_alphabet", J::s(json::show(alpha)));
        j.put("layer2_maxlen", J::i(n as i64));
    }
    j
}

fn check_diff_group(ctx: &ModelCtx, rep: &Report, st: &mut Stats, apis: &[Api], h: &[u8], s: usize, e: usize, anchored: bool, pre: bool) {
    // temporarily view only the searchers with this prefilter setting
    for &api in apis {
        if matches!(api, Api::OvSteps | Api::OvIter) && ctx.kind != Kind::Std {
            continue;
        }
        if api == Api::OvIter && anchored {
            continue;
        }
        let mut base: Option<(&Cfg, api::Out)> = None;
        for (cfg, sr) in ctx.searchers.iter().filter(|(c, _)| c.pre == pre) {
            if !cfg.supports(anchored) {
                continue;
            }
            let got = api::run(sr, api, h, s, e, anchored).norm();
            st.add("api_calls", 1);
            match &base {
                None => base = Some((cfg, got)),
                Some((bcfg, b)) => {
                    if &got != b {
                        rep.violation(Violation {
                            property: rep.property.clone(),
                            what: format!("{}-differs", api.name()),
                            case: ctx.case(cfg, api, h, s, e, anchored).set("baseline_cfg", J::s(bcfg.name())),
                            detail: format!(
                                "{} {} ci={} {} on \"{}\"[{}..{}] anchored={}: {} gives {}, {} gives {}",
                                pats_show(&ctx.pats), ctx.kind.name(), ctx.ci, api.name(), json::show(h), s, e, anchored,
                                bcfg.name(), b.show(), cfg.name(), got.show()
                            ),
                            tags: ctx.tags(cfg, api, anchored),
                        });
                    }
                }
            }
        }
    }
}

/// C16: the documented caller-written loop over the low-level automaton
/// returns what the built-in search returns.
fn check_recipe(ctx: &ModelCtx, rep: &Report, st: &mut Stats, h: &[u8], s: usize, e: usize, anchored: bool) {
    for (cfg, sr) in ctx.searchers.iter().filter(|(c, _)| c.is_low()) {
        if !cfg.supports(anchored) {
            continue;
        }
        for earliest in [false, true] {
            let built_in = sr.try_find(h, s, e, anchored, earliest);
            let recipe = std::panic::catch_unwind(std::panic::AssertUnwindSafe(|| {
                crate::with_aut!(sr, a => e1::recipe_find(a, h, s, e, anchored, earliest), Ok(None))
            }))
            .unwrap_or_else(|p| Err(format!("PANIC: {}", aut::panic_msg(&p))));
            st.add("api_calls", 1);
            // with a prefilter, an earliest leftmost search may confirm a
            // match through the prefilter, which the recipe does not use;
            // compare exactly only where both are the same algorithm
            let comparable = !(earliest && cfg.pre && ctx.kind.is_leftmost() && !anchored);
            let same = match (&built_in, &recipe) {
                (Ok(a), Ok(b)) => !comparable || a == b,
                (Err(_), Err(_)) => true,
                _ => false,
            };
            if !same {
                let api = if earliest { Api::Earliest } else { Api::Find };
                rep.violation(Violation {
                    property: rep.property.clone(),
                    what: "recipe-vs-builtin".into(),
                    case: ctx.case(cfg, api, h, s, e, anchored).set("mode", J::s("recipe")),
                    detail: format!(
                        "{} {} {} on \"{}\"[{}..{}] anchored={} earliest={}: documented loop gives {:?}, built-in try_find gives {:?}",
                        pats_show(&ctx.pats), ctx.kind.name(), cfg.name(), json::show(h), s, e, anchored, earliest, recipe, built_in
                    ),
                    tags: ctx.tags(cfg, api, anchored),
                });
            }
        }
    }
}

/// C19 on the built-in loops: per search call positions strictly increase
/// inside the span (so transitions <= span length), failure traversals never
/// exceed transitions, a DFA follows none.
fn check_counters(ctx: &ModelCtx, rep: &Report, st: &mut Stats, apis: &[Api], h: &[u8], s: usize, e: usize, anchored: bool) {
    use aho_corasick::verif::{counters, reset_counters};
    for (cfg, sr) in &ctx.searchers {
        if !cfg.supports(anchored) {
            continue;
        }
        for &api in apis {
            if matches!(api, Api::OvSteps | Api::OvIter) && ctx.kind != Kind::Std {
                continue;
            }
            if api == Api::OvIter && anchored {
                continue;
            }
            reset_counters();
            let _ = api::run(sr, api, h, s, e, anchored);
            let c = counters();
            st.add("api_calls", 1);
            st.add("counted_transitions", c.transitions);
            st.add("counted_fail_steps", c.fail_steps);
            let span_len = e.saturating_sub(s) as u64;
            let single = matches!(api, Api::Find | Api::Earliest | Api::IsMatch);
            let is_dfa = matches!(cfg.rep, Rep::D { .. } | Rep::Top { kind: 3, .. });
            let mut bad: Option<String> = None;
            if c.non_monotone != 0 {
                bad = Some(format!("{} transitions were issued for a position outside the span or not beyond the previous one", c.non_monotone));
            } else if single && c.transitions > span_len {
                bad = Some(format!("{} transitions for a span of {} bytes", c.transitions, span_len));
            } else if c.fail_excess != 0 {
                bad = Some(format!("failure traversals exceeded transitions ({} times; totals {} vs {})", c.fail_excess, c.fail_steps, c.transitions));
            } else if is_dfa && c.fail_steps != 0 {
                bad = Some(format!("a DFA search followed {} failure transitions", c.fail_steps));
            }
            if let Some(b) = bad {
                rep.violation(Violation {
                    property: rep.property.clone(),
                    what: "work-counters".into(),
                    case: ctx.case(cfg, api, h, s, e, anchored).set("mode", J::s("counters")),
                    detail: format!(
                        "{} {} {} {} on \"{}\"[{}..{}] anchored={}: {}",
                        pats_show(&ctx.pats), ctx.kind.name(), cfg.name(), api.name(), json::show(h), s, e, anchored, b
                    ),
                    tags: ctx.tags(cfg, api, anchored),
                });
            }
        }
    }
}

/// A large structured universe explored at table level only (no API
/// replays). Two generators:
///  * Tuples: all k-tuples over the pool of strings over `alpha` with length
///    `minlen..=maxlen`;
///  * Subs: for a word W, every subset of 1..=maxk of its distinct substrings,
///    each chosen substring optionally extended by a fresh letter (all 2^k
///    combinations), in forward and reverse order. These are the suffix- and
///    prefix-nested shapes (inherited matches, multi-hop failure chains) that
///    tuples over tiny alphabets reach only at sizes far beyond enumeration.
#[derive(Clone)]
pub enum Deep {
    Tuples { name: &'static str, alpha: &'static [u8], minlen: usize, maxlen: usize, k: usize, ci: bool },
    /// `opts` = 2: each chosen substring plain or extended; 3: plain, extended,
    /// or both (the substring and its extension as two patterns)
    Subs { word: Vec<u8>, maxk: usize, ci: bool, opts: usize },
}

const EXT: [u8; 4] = [b'p', b'q', b'r', b's'];

impl Deep {
    pub fn name(&self) -> String {
        match self {
            Deep::Tuples { name, .. } => name.to_string(),
            Deep::Subs { word, maxk, opts, .. } => format!("subs({},{},{})", json::show(word), maxk, opts),
        }
    }
    pub fn ci(&self) -> bool {
        match self {
            Deep::Tuples { ci, .. } | Deep::Subs { ci, .. } => *ci,
        }
    }
    fn pool(&self) -> Vec<Vec<u8>> {
        match self {
            Deep::Tuples { alpha, minlen, maxlen, .. } => universe::strings(alpha, *maxlen).into_iter().filter(|s| s.len() >= *minlen).collect(),
            Deep::Subs { word, .. } => {
                let mut v: Vec<Vec<u8>> = vec![];
                for a in 0..word.len() {
                    for b in a + 1..=word.len() {
                        let s = word[a..b].to_vec();
                        if !v.contains(&s) {
                            v.push(s);
                        }
                    }
                }
                v
            }
        }
    }
    /// number of work chunks
    fn chunks(&self, pool: &[Vec<u8>]) -> usize {
        match self {
            Deep::Tuples { k, .. } => (pool.len().pow(*k as u32) + 2047) / 2048,
            Deep::Subs { .. } => pool.len(), // chunk = subsets whose smallest element is the given one
        }
    }
    /// number of lists (exact)
    fn size(&self, pool: &[Vec<u8>]) -> usize {
        match self {
            Deep::Tuples { k, .. } => pool.len().pow(*k as u32),
            Deep::Subs { maxk, opts, .. } => {
                let n = pool.len();
                let mut total = 0usize;
                let mut c = 1usize; // C(n, k)
                for k in 1..=*maxk.min(&n) {
                    c = c * (n - k + 1) / k;
                    total += c * opts.pow(k as u32) * 2;
                }
                total
            }
        }
    }
    fn for_each(&self, pool: &[Vec<u8>], chunk: usize, f: &mut dyn FnMut(&Pats)) {
        match self {
            Deep::Tuples { k, .. } => {
                let pn = pool.len();
                let n = pn.pow(*k as u32);
                let lo = chunk * 2048;
                let hi = (lo + 2048).min(n);
                let mut pats: Pats = Vec::with_capacity(*k);
                for idx in lo..hi {
                    pats.clear();
                    let mut x = idx;
                    for _ in 0..*k {
                        pats.push(pool[x % pn].clone());
                        x /= pn;
                    }
                    f(&pats);
                }
            }
            Deep::Subs { maxk, opts, .. } => {
                // subsets (as increasing index vectors) whose first element is `chunk`
                let n = pool.len();
                let mut idx: Vec<usize> = vec![chunk];
                let mut pats: Pats = vec![];
                loop {
                    let k = idx.len();
                    for flags in 0..opts.pow(k as u32) {
                        pats.clear();
                        let mut fl = flags;
                        for (j, &i) in idx.iter().enumerate() {
                            let o = fl % opts;
                            fl /= opts;
                            if o != 1 {
                                pats.push(pool[i].clone());
                            }
                            if o >= 1 {
                                let mut p = pool[i].clone();
                                p.push(EXT[j]);
                                pats.push(p);
                            }
                        }
                        f(&pats);
                        pats.reverse();
                        f(&pats);
                    }
                    // next subset with the same first element (lexicographic, size <= maxk)
                    if k < *maxk && idx[k - 1] + 1 < n {
                        let nx = idx[k - 1] + 1;
                        idx.push(nx);
                    } else {
                        loop {
                            if idx.len() == 1 {
                                return;
                            }
                            let last = idx.len() - 1;
                            if idx[last] + 1 < n {
                                idx[last] += 1;
                                break;
                            }
                            idx.pop();
                        }
                    }
                }
            }
        }
    }
}

/// All restricted-growth words of the given length ("abab", "abca", ...: one
/// representative per equality pattern of positions), each also under the
/// reversed alphabet (byte order matters to the trie construction).
pub fn rg_words(len: usize) -> Vec<Vec<u8>> {
    let mut out: Vec<Vec<u8>> = vec![];
    fn rec(cur: &mut Vec<u8>, maxc: u8, len: usize, out: &mut Vec<Vec<u8>>) {
        if cur.len() == len {
            out.push(cur.clone());
            return;
        }
        for c in 0..=maxc {
            cur.push(b'a' + c);
            rec(cur, if c == maxc { maxc + 1 } else { maxc }, len, out);
            cur.pop();
        }
    }
    rec(&mut vec![], 0, len, &mut out);
    let rev: Vec<Vec<u8>> = out.iter().map(|w| w.iter().map(|&c| b'a' + b'z' - c).collect()).collect();
    out.extend(rev);
    out
}

/// Table-level exploration of every list of the deep universes on a reduced
/// set of representations (their equivalence with all the others is C04's
/// business, which runs its joint product on the same universes).
pub fn run_deep(rep: &Report, deeps: &[Deep], kinds: &[Kind], explores: &[Explore], reps: &[Cfg]) {
    struct W {
        d: usize,
        chunk: usize,
    }
    let pools: Vec<Vec<Vec<u8>>> = deeps.iter().map(|d| d.pool()).collect();
    let mut items = vec![];
    for (di, d) in deeps.iter().enumerate() {
        for chunk in 0..d.chunks(&pools[di]) {
            items.push(W { d: di, chunk });
        }
        rep.count("deep_lists_planned", d.size(&pools[di]) as u64);
    }
    let desc = |i: usize| format!("deep universe {} chunk {}", deeps[items[i].d].name(), items[i].chunk);
    let joint_only = explores.iter().all(|e| matches!(e, Explore::Joint { .. }));
    crate::report::par_for_desc(rep, items.len(), &desc, |ix, st| {
        let w = &items[ix];
        let d = &deeps[w.d];
        let ci = d.ci();
        let mut n_in_chunk = 0u64;
        d.for_each(&pools[w.d], w.chunk, &mut |pats: &Pats| {
            n_in_chunk += 1;
            for &kind in kinds {
                let mk_def = || ModelDef { name: d.name(), pats: pats.clone(), kind, ci };
                let m = Model::new(pats.clone(), kind, ci);
                // one noncontiguous NFA, the other representations are built from it
                let built: Vec<(Cfg, Searcher)> = match build_from_one(pats, kind, ci, reps) {
                    Ok(b) => b,
                    Err(e) => {
                        rep.violation(Violation {
                            property: rep.property.clone(),
                            what: "build-failed".into(),
                            case: J::obj().set("engine", J::s("table")).set("patterns", pats_j(pats)).set("kind", J::s(kind.name())).set("ci", J::Bool(ci)).set("cfg", J::s("nnfa:dd=1:pre=0")).set("explore", J::s("contract")),
                            detail: format!("{} {}: {}", pats_show(pats), kind.name(), e),
                            tags: vec![],
                        });
                        continue;
                    }
                };
                st.add("deep_models", 1);
                for ex in explores {
                    match ex {
                        Explore::Joint { anchored } => {
                            let auts: Vec<&Searcher> = built.iter().map(|b| &b.1).collect();
                            let names: Vec<String> = built.iter().map(|b| b.0.name()).collect();
                            let r = std::panic::catch_unwind(std::panic::AssertUnwindSafe(|| e1::explore_joint(&auts, &names, kind, m.l, *anchored, st)));
                            let f = match r {
                                Ok(Ok(())) => continue,
                                Ok(Err(f)) => f,
                                Err(p) => Finding { what: "panic", witness: vec![], anchored: *anchored, detail: format!("panic: {}", aut::panic_msg(&p)) },
                            };
                            if f.what == "cap" {
                                rep.machinery(format!("cap on joint {}", pats_show(pats)));
                            } else {
                                rep.violation(finding_violation(rep, &mk_def(), &format!("jointdeep:{}", names.join("+")), ex, &f));
                            }
                        }
                        Explore::Walk { .. } if kind != Kind::Std => {}
                        Explore::Find { earliest: true, .. } if kind == Kind::Std => {}
                        _ => {
                            for (cfg, sr) in &built {
                                // the noncontiguous NFA is only part of the joint
                                // product here (its leftmost post-match states are
                                // two orders of magnitude slower to step)
                                if !joint_only && matches!(cfg.rep, Rep::N { .. }) && !matches!(ex, Explore::Work | Explore::Contract) {
                                    continue;
                                }
                                if let Err(f) = run_explore(cfg, sr, &m, ex, st, None) {
                                    if f.what == "cap" || f.what == "oracle-self-disagreement" {
                                        rep.machinery(format!("{} on {} {} {}", f.what, pats_show(pats), cfg.name(), ex.name()));
                                    } else {
                                        rep.violation(finding_violation(rep, &mk_def(), &cfg.name(), ex, &f));
                                    }
                                }
                            }
                        }
                    }
                }
            }
        });
        st.add("deep_lists", n_in_chunk);
        if rep.nsamples() < 6 && ix % 97 == 13 {
            let mut ex: Option<Pats> = None;
            d.for_each(&pools[w.d], w.chunk, &mut |p: &Pats| {
                if ex.is_none() && p.len() >= 3 {
                    ex = Some(p.clone());
                }
            });
            if let Some(p) = ex {
                rep.sample(J::obj().set("deep_universe", J::s(d.name())).set("example_list", J::s(pats_show(&p))).set("representations", J::Arr(reps.iter().map(|c| J::s(c.name())).collect())).set("level", J::s("table exploration only (all 256 bytes, closed product); no API replay")));
            }
        }
    });
}

/// Build the requested low-level representations from ONE noncontiguous NFA.
fn build_from_one(pats: &Pats, kind: Kind, ci: bool, reps: &[Cfg]) -> Result<Vec<(Cfg, Searcher)>, String> {
    use aho_corasick::{dfa, nfa};
    let r = std::panic::catch_unwind(std::panic::AssertUnwindSafe(|| -> Result<Vec<(Cfg, Searcher)>, String> {
        let dd = reps.iter().find_map(|c| if let Rep::N { dd } = c.rep { Some(dd) } else { None }).unwrap_or(1);
        let nn = aut::build_nnfa(pats, kind, ci, false, dd)?;
        let mut out = vec![];
        for &c in reps {
            match c.rep {
                Rep::C { dd, bc } => out.push((c, Searcher::C(nfa::contiguous::Builder::new().dense_depth(dd).byte_classes(bc).build_from_noncontiguous(&nn).map_err(|e| e.to_string())?))),
                Rep::D { sk, bc } => out.push((c, Searcher::D(dfa::Builder::new().start_kind(sk.ac()).byte_classes(bc).build_from_noncontiguous(&nn).map_err(|e| e.to_string())?))),
                _ => {}
            }
        }
        if let Some(&c) = reps.iter().find(|c| matches!(c.rep, Rep::N { .. })) {
            out.insert(0, (c, Searcher::N(nn)));
        }
        Ok(out)
    }));
    match r {
        Ok(x) => x,
        Err(p) => Err(format!("PANIC in build: {}", aut::panic_msg(&p))),
    }
}

/// Replay of a "table" case.
pub fn replay_table(case: &J) -> i32 {
    let pats = crate::report::pats_from_j(case.get("patterns").unwrap_or(&J::Null));
    let kind = Kind::from_name(&case.str_of("kind"));
    let ci = case.bool_of("ci");
    let ex = match Explore::parse(&case.str_of("explore")) {
        Some(e) => e,
        None => return 2,
    };
    let cfgname = case.str_of("cfg");
    println!("patterns={} kind={} ci={} cfg={} explore={}", pats_show(&pats), kind.name(), ci, cfgname, ex.name());
    let m = Model::new(pats.clone(), kind, ci);
    let mut st = Stats::default();
    if let Explore::Joint { anchored } = ex {
        let pre = cfgname.ends_with("pre=1");
        let mut srs = vec![];
        let mut names = vec![];
        let cfgs: Vec<Cfg> = if let Some(list) = cfgname.strip_prefix("jointdeep:") {
            list.split('+').filter_map(Cfg::parse).collect()
        } else {
            low_reps().into_iter().map(|r| Cfg { rep: r, pre }).filter(|c| c.applicable(kind, ci)).collect()
        };
        for c in cfgs {
            match aut::build(&pats, kind, ci, c) {
                Ok(s) => {
                    srs.push(s);
                    names.push(c.name());
                }
                Err(e) => {
                    println!("build failed: {}", e);
                    return 1;
                }
            }
        }
        let refs: Vec<&Searcher> = srs.iter().collect();
        return match e1::explore_joint(&refs, &names, kind, m.l, anchored, &mut st) {
            Ok(()) => {
                println!("no disagreement: joint product closed");
                0
            }
            Err(f) => {
                println!("witness=\"{}\" {}: {}", json::show(&f.witness), f.what, f.detail);
                1
            }
        };
    }
    let cfg = match Cfg::parse(&cfgname) {
        Some(c) => c,
        None => return 2,
    };
    let sr = match aut::build(&pats, kind, ci, cfg) {
        Ok(s) => s,
        Err(e) => {
            println!("build failed: {}", e);
            return 1;
        }
    };
    match run_explore(&cfg, &sr, &m, &ex, &mut st, None) {
        Ok(()) => {
            println!("exploration closed with no finding");
            0
        }
        Err(f) => {
            println!("witness=\"{}\" {}: {}", json::show(&f.witness), f.what, f.detail);
            1
        }
    }
}

/// Replay of an "api" case with mode "recipe" (C16) or "counters" (C19).
pub fn replay_mode(case: &J) -> i32 {
    let pats = crate::report::pats_from_j(case.get("patterns").unwrap_or(&J::Null));
    let kind = Kind::from_name(&case.str_of("kind"));
    let ci = case.bool_of("ci");
    let h = json::unhex(&case.str_of("haystack"));
    let span = case.get("span").and_then(|s| s.as_arr()).map(|a| (a[0].as_usize().unwrap_or(0), a[1].as_usize().unwrap_or(0))).unwrap_or((0, h.len()));
    let anchored = case.bool_of("anchored");
    let api = Api::from_name(&case.str_of("api"));
    let cfg = match Cfg::parse(&case.str_of("cfg")) {
        Some(c) => c,
        None => return 2,
    };
    println!("patterns={} kind={} ci={} cfg={} api={} mode={}", pats_show(&pats), kind.name(), ci, cfg.name(), api.name(), case.str_of("mode"));
    println!("haystack=\"{}\" span={}..{} anchored={}", json::show(&h), span.0, span.1, anchored);
    let mut ctx = ModelCtx::new("replay", &pats, kind, ci);
    if let Err((_, e)) = ctx.build(&[cfg]) {
        println!("build failed: {}", e);
        return 1;
    }
    let rep = Report::new(&case.str_of("property"), "quick");
    let mut st = Stats::default();
    if case.str_of("mode") == "recipe" {
        check_recipe(&ctx, &rep, &mut st, &h, span.0, span.1, anchored);
    } else {
        check_counters(&ctx, &rep, &mut st, &[api], &h, span.0, span.1, anchored);
        println!("counters after the call: {:?}", aho_corasick::verif::counters());
    }
    if rep.nviol() > 0 {
        1
    } else {
        0
    }
}

