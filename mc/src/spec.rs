//! SPEC: the boring reference. Written directly from the property statements:
//! naive, quadratic, no automaton, no failure links, no incremental state.

pub type M = (usize, usize, usize); // (pattern index, start, end)

#[derive(Clone, Copy, PartialEq, Eq, Debug, Hash, PartialOrd, Ord)]
pub enum Kind {
    Std,
    LF,
    LL,
}

impl Kind {
    pub const ALL: [Kind; 3] = [Kind::Std, Kind::LF, Kind::LL];
    pub fn name(self) -> &'static str {
        match self {
            Kind::Std => "standard",
            Kind::LF => "leftmost-first",
            Kind::LL => "leftmost-longest",
        }
    }
    pub fn from_name(s: &str) -> Kind {
        match s {
            "leftmost-first" => Kind::LF,
            "leftmost-longest" => Kind::LL,
            _ => Kind::Std,
        }
    }
    pub fn ac(self) -> aho_corasick::MatchKind {
        match self {
            Kind::Std => aho_corasick::MatchKind::Standard,
            Kind::LF => aho_corasick::MatchKind::LeftmostFirst,
            Kind::LL => aho_corasick::MatchKind::LeftmostLongest,
        }
    }
    pub fn is_leftmost(self) -> bool {
        self != Kind::Std
    }
}

#[inline]
pub fn fold(b: u8, ci: bool) -> u8 {
    if ci && b.is_ascii_uppercase() {
        b + 32
    } else {
        b
    }
}

/// The other ASCII case of a letter; identity on everything else.
pub fn opposite(b: u8) -> u8 {
    if b.is_ascii_uppercase() {
        b + 32
    } else if b.is_ascii_lowercase() {
        b - 32
    } else {
        b
    }
}

#[derive(Clone, Debug)]
pub struct Spec {
    pub pats: Vec<Vec<u8>>,
    pub ci: bool,
}

impl Spec {
    pub fn new(pats: Vec<Vec<u8>>, ci: bool) -> Spec {
        Spec { pats, ci }
    }

    pub fn maxlen(&self) -> usize {
        self.pats.iter().map(|p| p.len()).max().unwrap_or(0)
    }

    /// Does pattern `i` occur at `h[a..]`, ending at or before `e`?
    #[inline]
    pub fn at(&self, i: usize, h: &[u8], a: usize, e: usize) -> bool {
        let p = &self.pats[i];
        a + p.len() <= e
            && p.iter().zip(&h[a..a + p.len()]).all(|(&x, &y)| fold(x, self.ci) == fold(y, self.ci))
    }

    /// Is `m` a genuine occurrence inside `[s, e)` (respecting anchoring)?
    pub fn is_occ(&self, m: M, h: &[u8], s: usize, e: usize, anchored: bool) -> bool {
        let (i, a, b) = m;
        i < self.pats.len()
            && s <= a
            && a <= b
            && b <= e
            && b - a == self.pats[i].len()
            && self.at(i, h, a, e)
            && (!anchored || a == s)
    }

    /// All occurrences inside `[s, e)`.
    pub fn occ(&self, h: &[u8], s: usize, e: usize, anchored: bool) -> Vec<M> {
        let mut v = vec![];
        if s > e {
            return v;
        }
        for a in s..=e {
            if anchored && a != s {
                break;
            }
            for i in 0..self.pats.len() {
                if self.at(i, h, a, e) {
                    v.push((i, a, a + self.pats[i].len()));
                }
            }
        }
        v
    }

    /// Formulation 1: direct loops.
    pub fn find(&self, kind: Kind, h: &[u8], s: usize, e: usize, anchored: bool) -> Option<M> {
        if s > e {
            return None;
        }
        match kind {
            Kind::Std => {
                for b in s..=e {
                    let mut best: Option<M> = None;
                    for (i, p) in self.pats.iter().enumerate() {
                        if p.len() <= b - s {
                            let a = b - p.len();
                            if anchored && a != s {
                                continue;
                            }
                            if self.at(i, h, a, b) && best.map_or(true, |x| p.len() > x.2 - x.1) {
                                best = Some((i, a, b));
                            }
                        }
                    }
                    if best.is_some() {
                        return best;
                    }
                }
                None
            }
            Kind::LF | Kind::LL => {
                for a in s..=e {
                    if anchored && a != s {
                        break;
                    }
                    let mut best: Option<M> = None;
                    for (i, p) in self.pats.iter().enumerate() {
                        if self.at(i, h, a, e) {
                            let c = (i, a, a + p.len());
                            best = match best {
                                None => Some(c),
                                Some(x) => {
                                    if kind == Kind::LL && p.len() > x.2 - x.1 {
                                        Some(c)
                                    } else {
                                        Some(x)
                                    }
                                }
                            };
                        }
                    }
                    if best.is_some() {
                        return best;
                    }
                }
                None
            }
        }
    }

    /// Formulation 2: minimum of the occurrence set under the kind's order.
    pub fn find2(&self, kind: Kind, h: &[u8], s: usize, e: usize, anchored: bool) -> Option<M> {
        let o = self.occ(h, s, e, anchored);
        match kind {
            Kind::Std => o.into_iter().min_by_key(|&(i, a, b)| (b, usize::MAX - (b - a), i)),
            Kind::LF => o.into_iter().min_by_key(|&(i, a, _)| (a, i)),
            Kind::LL => o.into_iter().min_by_key(|&(i, a, b)| (a, usize::MAX - (b - a), i)),
        }
    }

    /// Selection of the answer from an explicit occurrence list (the
    /// definition used by formulation 2).
    pub fn select(kind: Kind, occ: impl Iterator<Item = M>) -> Option<M> {
        match kind {
            Kind::Std => occ.min_by_key(|&(i, a, b)| (b, usize::MAX - (b - a), i)),
            Kind::LF => occ.min_by_key(|&(i, a, _)| (a, i)),
            Kind::LL => occ.min_by_key(|&(i, a, b)| (a, usize::MAX - (b - a), i)),
        }
    }

    /// The non-overlapping iterator over an explicit occurrence list (only
    /// non-empty patterns; unanchored), restricted to `[s, e)`.
    pub fn iter_occ(kind: Kind, occ: &[M], s: usize, e: usize) -> Vec<M> {
        let mut out = vec![];
        let mut start = s;
        loop {
            match Spec::select(kind, occ.iter().copied().filter(|&(_, a, b)| a >= start && b <= e)) {
                None => break,
                Some(m) => {
                    out.push(m);
                    start = m.2;
                }
            }
        }
        out
    }

    /// The non-overlapping iterator.
    pub fn iter(&self, kind: Kind, h: &[u8], s: usize, e: usize, anchored: bool) -> Vec<M> {
        let mut out = vec![];
        let mut start = s;
        let mut last_end: Option<usize> = None;
        loop {
            let mut m = match self.find(kind, h, start, e, anchored) {
                None => break,
                Some(m) => m,
            };
            if m.1 == m.2 && Some(m.2) == last_end {
                start += 1;
                m = match self.find(kind, h, start, e, anchored) {
                    None => break,
                    Some(m) => m,
                };
            }
            out.push(m);
            start = m.2;
            last_end = Some(m.2);
        }
        out
    }

    /// All occurrences ordered by (end asc, length desc, index asc).
    pub fn overlapping(&self, h: &[u8], s: usize, e: usize, anchored: bool) -> Vec<M> {
        let mut o = self.occ(h, s, e, anchored);
        o.sort_by_key(|&(i, a, b)| (b, usize::MAX - (b - a), i));
        o
    }

    /// Indices of the patterns that are a suffix of `w` ending exactly at
    /// `|w|`, ordered (length desc, index asc). Anchored: only those that span
    /// all of `w`.
    pub fn suffixes(&self, w: &[u8], anchored: bool) -> Vec<usize> {
        let n = w.len();
        let mut v: Vec<usize> = (0..self.pats.len())
            .filter(|&i| {
                let p = &self.pats[i];
                p.len() <= n && (!anchored || p.len() == n) && self.at(i, w, n - p.len(), n)
            })
            .collect();
        v.sort_by(|&x, &y| self.pats[y].len().cmp(&self.pats[x].len()).then(x.cmp(&y)));
        v
    }

    /// Can some pattern still complete an anchored occurrence given that the
    /// anchored input so far is `w`? (Some pattern has `w` as a folded prefix.)
    pub fn anchored_alive(&self, w: &[u8]) -> bool {
        self.pats.iter().any(|p| {
            p.len() >= w.len()
                && p[..w.len()].iter().zip(w).all(|(&x, &y)| fold(x, self.ci) == fold(y, self.ci))
        })
    }

    /// The splice of `h` with every match replaced by `rep[pid]`.
    pub fn splice(&self, h: &[u8], ms: &[M], rep: &[Vec<u8>]) -> Vec<u8> {
        let mut out = vec![];
        let mut last = 0;
        for &(i, a, b) in ms {
            out.extend_from_slice(&h[last..a]);
            out.extend_from_slice(&rep[i]);
            last = b;
        }
        out.extend_from_slice(&h[last..]);
        out
    }
}

/// Self-check of the oracle: the two formulations must agree on a sweep. A
/// disagreement is a machinery error, never a verdict.
pub fn self_check() -> Result<u64, String> {
    let lists: Vec<Vec<&[u8]>> = vec![
        vec![b"a"],
        vec![b""],
        vec![b"ab", b"b", b""],
        vec![b"", b"a", b"ab"],
        vec![b"abc", b"bc", b"c"],
        vec![b"a", b"a", b"ab", b"ab"],
        vec![b"aba", b"ba", b"a"],
        vec![b"A", b"a", b"aB"],
    ];
    let mut n = 0u64;
    for l in &lists {
        for ci in [false, true] {
            let sp = Spec::new(l.iter().map(|p| p.to_vec()).collect(), ci);
            let alpha: &[u8] = if ci { b"aAbBc" } else { b"abc" };
            for h in crate::universe::strings(alpha, if ci { 4 } else { 5 }) {
                for s in 0..=h.len() {
                    for e in s.saturating_sub(1)..=h.len() {
                        for anchored in [false, true] {
                            for k in Kind::ALL {
                                n += 1;
                                let a = sp.find(k, &h, s, e, anchored);
                                let b = sp.find2(k, &h, s, e, anchored);
                                if a != b {
                                    return Err(format!(
                                        "SPEC formulations disagree: pats={:?} ci={} h={:?} span={}..{} anchored={} kind={:?}: {:?} vs {:?}",
                                        l, ci, h, s, e, anchored, k, a, b
                                    ));
                                }
                                if let Some(m) = a {
                                    if !sp.is_occ(m, &h, s, e, anchored) {
                                        return Err(format!("SPEC answer is not an occurrence: {:?}", m));
                                    }
                                }
                            }
                            // overlapping list must contain find(Std) first
                            let ov = sp.overlapping(&h, s, e, anchored);
                            if ov.first().copied() != sp.find(Kind::Std, &h, s, e, anchored) {
                                return Err("SPEC overlapping head != standard find".into());
                            }
                        }
                    }
                }
            }
        }
    }
    Ok(n)
}
