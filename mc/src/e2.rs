//! Engine E2 `iomc`: stateless exhaustive exploration of the environment of a
//! stream search: every sequence of read sizes (schedule), every reader fault
//! index, every writer fault byte and short-write pattern, for several roll
//! buffer capacities (hook H1), on the real StreamFindIter /
//! try_stream_replace_all(_with). Choice-prefix DFS with replay.

use crate::json::{self, J};
use crate::report::{par_for, pats_j, pats_show, Report, Stats, Violation};
use crate::spec::{Kind, Spec, M};
use crate::universe::{self, Pats};
use aho_corasick::{AhoCorasick, AhoCorasickKind};
use std::io::{self, Read, Write};
use std::panic::{catch_unwind, AssertUnwindSafe};

#[derive(Clone, Copy, PartialEq, Eq, Debug)]
pub enum Mode {
    Find,    // C07
    Replace, // C08
    Faults,  // C18
    /// C19: the same schedules as Find, judging only the work counters
    Work,
}

struct SchedReader<'a> {
    data: &'a [u8],
    pos: usize,
    sched: &'a [usize],
    idx: usize,
    /// (max answer possible, answer given) per call
    log: Vec<(usize, usize)>,
    fault_at: Option<usize>,
    eof_reported: bool,
    empty_buf_call: bool,
    /// absolute stream offsets at which a read ended
    cuts: Vec<usize>,
    /// answers are clamped to what is possible instead of treating a
    /// mismatch as a replay divergence (used where the schedule is a fixed
    /// list that was not derived from a previous run)
    lenient: bool,
    /// the kind of the injected read error
    fault_kind: io::ErrorKind,
}

impl<'a> SchedReader<'a> {
    fn new(data: &'a [u8], sched: &'a [usize], fault_at: Option<usize>) -> SchedReader<'a> {
        SchedReader { data, pos: 0, sched, idx: 0, log: vec![], fault_at, eof_reported: false, empty_buf_call: false, cuts: vec![], lenient: false, fault_kind: io::ErrorKind::Other }
    }
}

impl<'a> Read for SchedReader<'a> {
    fn read(&mut self, buf: &mut [u8]) -> io::Result<usize> {
        if buf.is_empty() {
            self.empty_buf_call = true;
        }
        if Some(self.idx) == self.fault_at {
            self.idx += 1;
            self.log.push((0, 0));
            return Err(io::Error::new(self.fault_kind, "injected read fault"));
        }
        let rem = self.data.len() - self.pos;
        let maxr = rem.min(buf.len());
        // after an injected fault has fired the recorded (fault-free) schedule
        // no longer describes the run: fall back to the default answer
        let fired = self.fault_at.map_or(false, |k| self.idx > k);
        let want = if self.idx < self.sched.len() && !fired { self.sched[self.idx] } else { maxr };
        let want = if self.lenient { want.min(maxr).max(if maxr > 0 { 1 } else { 0 }) } else { want };
        if self.idx < self.sched.len() && !fired && (want > maxr || (want == 0 && maxr > 0)) {
            // replaying a prefix must reproduce the same menu of answers
            panic!("HARNESS replay divergence: schedule asks {} but only {} possible", want, maxr);
        }
        let r = want.min(maxr);
        self.log.push((maxr, r));
        self.idx += 1;
        if r == 0 && rem == 0 {
            self.eof_reported = true;
        }
        buf[..r].copy_from_slice(&self.data[self.pos..self.pos + r]);
        self.pos += r;
        if r > 0 {
            self.cuts.push(self.pos);
        }
        Ok(r)
    }
}

struct SchedWriter {
    out: Vec<u8>,
    /// total bytes accepted before failing (usize::MAX: never fails)
    accept: usize,
    /// at most this many bytes per write call
    per_call: usize,
    failed: bool,
    /// never accept more than this in total (runaway producer)
    limit: usize,
}

/// A writer never accepts more than this: an implementation that keeps
/// writing is stopped by an error (and reported as a mismatch by the oracle).
const WRITE_LIMIT: usize = 1 << 14;

impl Write for SchedWriter {
    fn write(&mut self, b: &[u8]) -> io::Result<usize> {
        if self.out.len() > self.limit.max(WRITE_LIMIT) {
            return Err(io::Error::new(io::ErrorKind::Other, "HARNESS write limit: runaway output"));
        }
        if self.out.len() >= self.accept {
            self.failed = true;
            return Err(io::Error::new(io::ErrorKind::Other, "injected write fault"));
        }
        let n = b.len().min(self.per_call).min(self.accept - self.out.len());
        self.out.extend_from_slice(&b[..n]);
        Ok(n)
    }
    fn flush(&mut self) -> io::Result<()> {
        Ok(())
    }
}

fn b(s: &str) -> Vec<u8> {
    s.as_bytes().to_vec()
}

pub fn families(thorough: bool) -> Vec<Pats> {
    let mut v: Vec<Pats> = vec![
        vec![b("a")],
        vec![b("ab")],
        vec![b("ab"), b("b")],
        vec![b("aba"), b("ba"), b("a")],
        vec![b("abb"), b("bb"), b("b")],
        vec![b("aab"), b("ab")],
        vec![b("abab"), b("ba")],
        vec![b("bab"), b("ab"), b("abba")],
        vec![b("aa"), b("aa"), b("a")],
        vec![b("aaa"), b("aab"), b("b")],
        vec![b("abc"), b("bc"), b("c")],
        vec![b("abcab"), b("cab"), b("b")],
    ];
    if thorough {
        let more: Vec<Pats> = vec![
            vec![b("b")],
            vec![b("ba")],
            vec![b("aa")],
            vec![b("aaa")],
            vec![b("abab"), b("bab"), b("ab"), b("b")],
            vec![b("abba"), b("bb")],
            vec![b("ab"), b("ba")],
            vec![b("aab"), b("aba"), b("baa")],
            vec![b("abcd"), b("bcd"), b("cd"), b("d")],
            vec![b("abcd"), b("bc")],
            vec![b("a"), b("b"), b("c")],
            vec![b("ab"), b("ab"), b("ab")],
            vec![b("aaaa"), b("aa")],
            vec![b("baab"), b("aa"), b("b")],
            vec![b("abaab"), b("ab")],
            vec![b("cab"), b("abc"), b("bca")],
        ];
        v.extend(more);
        // every non-empty list of 1..=2 patterns over {a,b} of length 1..=2
        let pool: Vec<Vec<u8>> = universe::strings(b"ab", 2).into_iter().filter(|p| !p.is_empty()).collect();
        for l in universe::lists(&pool, 2) {
            if !v.contains(&l) {
                v.push(l);
            }
        }
    }
    v
}

const KINDS: [AhoCorasickKind; 3] = [AhoCorasickKind::NoncontiguousNFA, AhoCorasickKind::ContiguousNFA, AhoCorasickKind::DFA];

/// Printable rendering of a stream, shortened in the middle when long.
fn shows(b: &[u8]) -> String {
    if b.len() <= 120 {
        json::show(b)
    } else {
        format!("{}...({} bytes)...{}", json::show(&b[..40]), b.len(), json::show(&b[b.len() - 40..]))
    }
}

fn kind_name(k: AhoCorasickKind) -> &'static str {
    match k {
        AhoCorasickKind::NoncontiguousNFA => "nnfa",
        AhoCorasickKind::ContiguousNFA => "cnfa",
        AhoCorasickKind::DFA => "dfa",
        _ => "?",
    }
}

fn kind_from(s: &str) -> AhoCorasickKind {
    match s {
        "cnfa" => AhoCorasickKind::ContiguousNFA,
        "dfa" => AhoCorasickKind::DFA,
        _ => AhoCorasickKind::NoncontiguousNFA,
    }
}

fn mm(m: aho_corasick::Match) -> M {
    (m.pattern().as_usize(), m.start(), m.end())
}

struct Item<'a> {
    only_work: bool,
    pats: &'a Pats,
    kind: AhoCorasickKind,
    cap: usize,
    ac: &'a AhoCorasick,
    spec: &'a Spec,
    reps: Vec<Vec<Vec<u8>>>,
}

#[derive(Default)]
struct Exec {
    log: Vec<(usize, usize)>,
    cuts: Vec<usize>,
}

impl<'a> Item<'a> {
    fn case(&self, mode: &str, stream: &[u8], sched: &[usize]) -> J {
        J::obj()
            .set("engine", J::s("io"))
            .set("mode", J::s(mode))
            .set("patterns", pats_j(self.pats))
            .set("patterns_shown", J::s(pats_show(self.pats)))
            .set("kind", J::s(kind_name(self.kind)))
            .set("capacity", J::i(self.cap as i64))
            .set("stream", J::s(json::hex(stream)))
            .set("stream_shown", J::s(shows(stream)))
            .set("schedule", J::Arr(sched.iter().map(|&x| J::i(x as i64)).collect()))
    }
    fn viol(&self, rep: &Report, what: &str, case: J, detail: String) {
        rep.violation(Violation {
            property: rep.property.clone(),
            what: what.to_string(),
            case,
            detail: format!("{} {} cap={}: {}", pats_show(self.pats), kind_name(self.kind), self.cap, detail),
            tags: vec![("kind".into(), kind_name(self.kind).into()), ("capacity".into(), self.cap.to_string())],
        });
    }

    /// One stream search under a schedule. Returns the execution log.
    fn run_find(&self, rep: &Report, st: &mut Stats, stream: &[u8], sched: &[usize], exp: &[M]) -> Exec {
        self.run_find_cap(rep, st, stream, sched, exp, true)
    }

    fn run_find_cap(&self, rep: &Report, st: &mut Stats, stream: &[u8], sched: &[usize], exp: &[M], hook: bool) -> Exec {
        aho_corasick::verif::set_stream_buffer_capacity(if hook { Some(self.cap) } else { None });
        aho_corasick::verif::reset_counters();
        let mut rdr = SchedReader::new(stream, sched, None);
        rdr.lenient = !hook;
        let r = catch_unwind(AssertUnwindSafe(|| {
            let mut got: Vec<Result<M, String>> = vec![];
            let mut it = self.ac.try_stream_find_iter(&mut rdr).map_err(|e| e.to_string())?;
            let mut n = 0;
            while let Some(x) = it.next() {
                got.push(x.map(mm).map_err(|e| e.to_string()));
                n += 1;
                if n > 4 * stream.len() + 8 {
                    return Err("stream iterator does not terminate".to_string());
                }
            }
            Ok(got)
        }));
        st.add("executions", 1);
        let c = aho_corasick::verif::counters();
        st.add("rolls", c.rolls);
        if c.rolls > 0 {
            st.add("executions_with_roll", 1);
        }
        let ex = Exec { log: rdr.log.clone(), cuts: rdr.cuts.clone() };
        let sched_full: Vec<usize> = ex.log.iter().map(|x| x.1).collect();
        match r {
            Err(p) => {
                let msg = crate::aut::panic_msg(&p);
                if msg.starts_with("HARNESS") {
                    rep.machinery(msg);
                } else {
                    self.viol(rep, "stream-find-panic", self.case("find", stream, &sched_full), format!("panic on stream \"{}\" schedule {:?}: {}", shows(stream), sched_full, msg));
                }
            }
            Ok(Err(e)) => self.viol(rep, "stream-find-error", self.case("find", stream, &sched_full), format!("stream \"{}\" schedule {:?}: {}", shows(stream), sched_full, e)),
            Ok(Ok(got)) => {
                let gv: Vec<M> = got.iter().filter_map(|x| x.clone().ok()).collect();
                let bad_err = got.iter().any(|x| x.is_err());
                if self.only_work {
                    if c.non_monotone != 0 || c.fail_excess != 0 {
                        self.viol(rep, "stream-work", self.case("find", stream, &sched_full), format!("stream \"{}\" read sizes {:?}: a stream search re-issued transitions for positions it had already consumed, or followed more failure transitions than transitions: {:?}", shows(stream), sched_full, c));
                    }
                    return ex;
                }
                if gv != exp || bad_err {
                    self.viol(
                        rep,
                        "stream-find-mismatch",
                        self.case("find", stream, &sched_full),
                        format!("stream \"{}\" read sizes {:?}: got {:?}, in-memory find_iter {:?}", shows(stream), sched_full, got, exp),
                    );
                }
                // Not judged here (they are not part of C07's statement; a
                // defect behind them shows up as a wrong match list above or
                // belongs to C18 / C19): the iterator ending before the reader
                // reported end of stream, a read with an empty buffer, and the
                // work counters. They are only counted.
                if !rdr.eof_reported {
                    st.add("note_iterator_ended_before_reader_eof", 1);
                }
                if rdr.empty_buf_call {
                    st.add("note_read_with_empty_buffer", 1);
                }
                if c.non_monotone != 0 || c.fail_excess != 0 {
                    st.add("note_work_counters_nonzero", 1);
                }
                for &(_, s, e) in exp {
                    if ex.cuts.iter().any(|&cut| s < cut && cut < e) {
                        st.add("matches_straddling_read_boundary", 1);
                        break;
                    }
                }
            }
        }
        ex
    }

    fn run_replace(&self, rep: &Report, st: &mut Stats, stream: &[u8], sched: &[usize], exp_matches: &[M]) -> Exec {
        self.run_replace_cap(rep, st, stream, sched, exp_matches, true)
    }

    fn run_replace_cap(&self, rep: &Report, st: &mut Stats, stream: &[u8], sched: &[usize], exp_matches: &[M], hook: bool) -> Exec {
        aho_corasick::verif::set_stream_buffer_capacity(if hook { Some(self.cap) } else { None });
        let mut ex = Exec::default();
        // the default-capacity sweep (64 KiB streams) uses one replacement table
        let ntab = if hook { self.reps.len() } else { 1 };
        for (ri, reptab) in self.reps.iter().enumerate().take(ntab) {
            let exp_out = self.spec.splice(stream, exp_matches, reptab);
            for per_call in [usize::MAX, 1, 2] {
                // table variant
                let mut rdr = SchedReader::new(stream, sched, None);
                rdr.lenient = !hook;
                let mut w = SchedWriter { out: vec![], accept: usize::MAX, per_call, failed: false, limit: 8 * stream.len() + 64 };
                let r = catch_unwind(AssertUnwindSafe(|| self.ac.try_stream_replace_all(&mut rdr, &mut w, reptab)));
                st.add("executions", 1);
                let sched_full: Vec<usize> = rdr.log.iter().map(|x| x.1).collect();
                let case = || self.case("replace", stream, &sched_full).set("rep_table", J::i(ri as i64)).set("write_chunk", J::i(per_call.min(99) as i64));
                match r {
                    Err(p) => {
                        let msg = crate::aut::panic_msg(&p);
                        if msg.starts_with("HARNESS") {
                            rep.machinery(msg);
                        } else {
                            self.viol(rep, "stream-replace-panic", case(), format!("panic on stream \"{}\" schedule {:?}: {}", shows(stream), sched_full, msg));
                        }
                    }
                    Ok(Err(e)) => self.viol(rep, "stream-replace-error", case(), format!("stream \"{}\" schedule {:?}: unexpected error {}", shows(stream), sched_full, e)),
                    Ok(Ok(())) => {
                        if w.out != exp_out {
                            self.viol(
                                rep,
                                "stream-replace-mismatch",
                                case(),
                                format!(
                                    "stream \"{}\" read sizes {:?} write chunk {}: wrote \"{}\", in-memory replace_all gives \"{}\"",
                                    shows(stream), sched_full, per_call.min(99), json::show(&w.out), json::show(&exp_out)
                                ),
                            );
                        }
                    }
                }
                if ri == 0 && per_call == usize::MAX {
                    ex = Exec { log: rdr.log.clone(), cuts: rdr.cuts.clone() };
                }
            }
            // closure variant: handed exactly the matched bytes and absolute offsets
            let mut rdr = SchedReader::new(stream, sched, None);
            rdr.lenient = !hook;
            let mut w = SchedWriter { out: vec![], accept: usize::MAX, per_call: usize::MAX, failed: false, limit: 8 * stream.len() + 64 };
            let mut seen: Vec<(M, Vec<u8>)> = vec![];
            let r = catch_unwind(AssertUnwindSafe(|| {
                self.ac.try_stream_replace_all_with(&mut rdr, &mut w, |m, bytes, wtr| {
                    seen.push((mm(*m), bytes.to_vec()));
                    wtr.write_all(&reptab[m.pattern().as_usize()])
                })
            }));
            st.add("executions", 1);
            let sched_full: Vec<usize> = rdr.log.iter().map(|x| x.1).collect();
            let case = || self.case("replace_with", stream, &sched_full).set("rep_table", J::i(ri as i64));
            match r {
                Err(p) => {
                    let msg = crate::aut::panic_msg(&p);
                    if msg.starts_with("HARNESS") {
                        rep.machinery(msg);
                    } else {
                        self.viol(rep, "stream-replace-panic", case(), format!("panic (closure variant) on stream \"{}\" schedule {:?}: {}", shows(stream), sched_full, msg));
                    }
                }
                Ok(Err(e)) => self.viol(rep, "stream-replace-error", case(), format!("closure variant, stream \"{}\": unexpected error {}", shows(stream), e)),
                Ok(Ok(())) => {
                    let ms: Vec<M> = seen.iter().map(|x| x.0).collect();
                    let bytes_ok = seen.iter().all(|(m, bts)| m.2 <= stream.len() && m.1 <= m.2 && &stream[m.1..m.2] == &bts[..]);
                    if w.out != exp_out || ms != exp_matches || !bytes_ok {
                        self.viol(
                            rep,
                            "stream-replace-with-mismatch",
                            case(),
                            format!(
                                "closure variant, stream \"{}\" read sizes {:?}: closure saw {:?}, expected matches {:?}; wrote \"{}\", expected \"{}\"",
                                shows(stream), sched_full, seen.iter().map(|(m, bts)| (m, json::show(bts))).collect::<Vec<_>>(), exp_matches, json::show(&w.out), json::show(&exp_out)
                            ),
                        );
                    }
                }
            }
        }
        ex
    }

    /// Every reader fault index and writer fault byte for this schedule.
    fn run_faults(&self, rep: &Report, st: &mut Stats, stream: &[u8], sched_full: &[usize], exp: &[M]) {
        aho_corasick::verif::set_stream_buffer_capacity(Some(self.cap));
        let reptab = &self.reps[0];
        let exp_out = self.spec.splice(stream, exp, reptab);
        let nreads = sched_full.len();
        // every error kind of the reader must surface (std's own retry loops
        // treat Interrupted specially; the stream search must not)
        let kinds: &[io::ErrorKind] = if rep.thorough() {
            &[io::ErrorKind::Other, io::ErrorKind::Interrupted, io::ErrorKind::WouldBlock, io::ErrorKind::UnexpectedEof, io::ErrorKind::TimedOut]
        } else {
            &[io::ErrorKind::Other, io::ErrorKind::Interrupted]
        };
        for kk in 0..nreads * kinds.len() {
            let (k, fkind) = (kk / kinds.len(), kinds[kk % kinds.len()]);
            // reader fault during stream_find_iter
            let mut rdr = SchedReader::new(stream, sched_full, Some(k));
            rdr.fault_kind = fkind;
            let r = catch_unwind(AssertUnwindSafe(|| {
                let mut got: Vec<Result<M, String>> = vec![];
                let mut it = self.ac.try_stream_find_iter(&mut rdr).map_err(|e| e.to_string())?;
                let mut after_err: Option<bool> = None;
                while let Some(x) = it.next() {
                    let e = x.is_err();
                    got.push(x.map(mm).map_err(|e| e.to_string()));
                    if e || got.len() > 4 * stream.len() + 8 {
                        if e {
                            // the injected fault is transient: a caller that keeps
                            // iterating must not be told "end of stream" before the
                            // reader itself reports it (further items are not judged)
                            let mut n = 0;
                            let mut ended = false;
                            loop {
                                match it.next() {
                                    None => {
                                        ended = true;
                                        break;
                                    }
                                    Some(_) => {
                                        n += 1;
                                        if n > 4 * stream.len() + 8 {
                                            break;
                                        }
                                    }
                                }
                            }
                            after_err = Some(ended);
                        }
                        break;
                    }
                }
                drop(it);
                Ok::<_, String>((got, after_err))
            }));
            st.add("executions", 1);
            st.add("fault_points", 1);
            let case = || self.case("rfault", stream, sched_full).set("fault_at", J::i(k as i64)).set("fault_kind", J::s(format!("{:?}", fkind)));
            match r {
                Err(p) => {
                    let msg = crate::aut::panic_msg(&p);
                    if msg.starts_with("HARNESS") {
                        rep.machinery(msg);
                    } else {
                        self.viol(rep, "fault-panic", case(), format!("panic with read fault at call {} on stream \"{}\" schedule {:?}: {}", k, shows(stream), sched_full, msg));
                    }
                }
                Ok(Err(e)) => self.viol(rep, "fault-build", case(), e),
                Ok(Ok((got, after_err))) => {
                    if after_err == Some(true) && !rdr.eof_reported {
                        self.viol(
                            rep,
                            "early-end-of-stream-after-error",
                            case(),
                            format!(
                                "read fault at call {} on stream \"{}\" read sizes {:?}: after the error item the iterator reported end of stream although the reader had delivered only {} of {} bytes and never returned Ok(0)",
                                k, shows(stream), sched_full, rdr.pos, stream.len()
                            ),
                        );
                    }
                    let okp: Vec<M> = got.iter().take_while(|x| x.is_ok()).map(|x| x.clone().unwrap()).collect();
                    let nerr = got.iter().filter(|x| x.is_err()).count();
                    if nerr != 1 || !exp.starts_with(&okp) {
                        self.viol(
                            rep,
                            "read-fault-not-surfaced",
                            case(),
                            format!(
                                "read fault at call {} on stream \"{}\" read sizes {:?}: iterator yielded {:?}; expected a prefix of {:?} followed by exactly one error",
                                k, shows(stream), sched_full, got, exp
                            ),
                        );
                    }
                }
            }
            // reader fault during replacement
            let mut rdr = SchedReader::new(stream, sched_full, Some(k));
            rdr.fault_kind = fkind;
            let mut w = SchedWriter { out: vec![], accept: usize::MAX, per_call: usize::MAX, failed: false, limit: 8 * stream.len() + 64 };
            let r = catch_unwind(AssertUnwindSafe(|| self.ac.try_stream_replace_all(&mut rdr, &mut w, reptab)));
            st.add("executions", 1);
            st.add("fault_points", 1);
            let case = || self.case("rfault_replace", stream, sched_full).set("fault_at", J::i(k as i64)).set("fault_kind", J::s(format!("{:?}", fkind)));
            match r {
                Err(p) => self.viol(rep, "fault-panic", case(), format!("panic with read fault at call {} in replace: {}", k, crate::aut::panic_msg(&p))),
                Ok(res) => {
                    if res.is_ok() || !exp_out.starts_with(&w.out) {
                        self.viol(
                            rep,
                            "read-fault-replace",
                            case(),
                            format!(
                                "read fault at call {} on stream \"{}\" read sizes {:?}: replace returned {:?} after writing \"{}\"; fault-free output is \"{}\"",
                                k, shows(stream), sched_full, res.map_err(|e| e.to_string()), json::show(&w.out), json::show(&exp_out)
                            ),
                        );
                    }
                }
            }
        }
        // writer faults: after k accepted bytes, with short writes
        for k in 0..exp_out.len() {
            for per_call in [usize::MAX, 1] {
                let mut rdr = SchedReader::new(stream, sched_full, None);
                let mut w = SchedWriter { out: vec![], accept: k, per_call, failed: false, limit: 8 * stream.len() + 64 };
                let r = catch_unwind(AssertUnwindSafe(|| self.ac.try_stream_replace_all(&mut rdr, &mut w, reptab)));
                st.add("executions", 1);
                st.add("fault_points", 1);
                let case = || self.case("wfault", stream, sched_full).set("fault_at", J::i(k as i64)).set("write_chunk", J::i(per_call.min(99) as i64));
                match r {
                    Err(p) => self.viol(rep, "fault-panic", case(), format!("panic with write fault after {} bytes: {}", k, crate::aut::panic_msg(&p))),
                    Ok(res) => {
                        if res.is_ok() || !exp_out.starts_with(&w.out) || !w.failed {
                            self.viol(
                                rep,
                                "write-fault-not-surfaced",
                                case(),
                                format!(
                                    "writer failing after {} bytes on stream \"{}\" read sizes {:?}: replace returned {:?} having written \"{}\"; fault-free output is \"{}\"",
                                    k, shows(stream), sched_full, res.map_err(|e| e.to_string()), json::show(&w.out), json::show(&exp_out)
                                ),
                            );
                        }
                    }
                }
            }
        }
    }

    /// Choice-prefix DFS over read-size schedules with at most `bound`
    /// deviations from the maximal answer (usize::MAX = full).
    fn explore(&self, rep: &Report, st: &mut Stats, mode: Mode, stream: &[u8], bound: usize) -> u64 {
        let exp: Vec<M> = mem_find_iter(self.ac, stream);
        let exp_spec = self.spec.iter(Kind::Std, stream, 0, stream.len(), false);
        if exp != exp_spec && !self.only_work {
            // belongs to C02, but a stream check against a wrong in-memory
            // answer would be meaningless: report it as what it is
            self.viol(rep, "in-memory-vs-spec", self.case("find", stream, &[]), format!("in-memory find_iter on \"{}\" gives {:?}, SPEC {:?}", shows(stream), exp, exp_spec));
        }
        let mut stack: Vec<(Vec<usize>, usize)> = vec![(vec![], 0)];
        let mut schedules = 0u64;
        while let Some((prefix, devs)) = stack.pop() {
            schedules += 1;
            let ex = match mode {
                Mode::Find | Mode::Work => self.run_find(rep, st, stream, &prefix, &exp),
                Mode::Replace => self.run_replace(rep, st, stream, &prefix, &exp),
                Mode::Faults => {
                    // fault-free run first to learn the complete schedule
                    let mut rdr = SchedReader::new(stream, &prefix, None);
                    aho_corasick::verif::set_stream_buffer_capacity(Some(self.cap));
                    let _ = catch_unwind(AssertUnwindSafe(|| {
                        if let Ok(it) = self.ac.try_stream_find_iter(&mut rdr) {
                            let mut n = 0;
                            for _ in it {
                                n += 1;
                                if n > 4 * stream.len() + 8 {
                                    break;
                                }
                            }
                        }
                    }));
                    let ex = Exec { log: rdr.log.clone(), cuts: rdr.cuts.clone() };
                    let full: Vec<usize> = ex.log.iter().map(|x| x.1).collect();
                    self.run_faults(rep, st, stream, &full, &exp);
                    ex
                }
            };
            st.add("schedules", 1);
            if ex.log.len() < prefix.len() {
                rep.machinery(format!("replay divergence: schedule prefix {:?} not consumed (log {:?})", prefix, ex.log));
                continue;
            }
            for i in prefix.len()..ex.log.len() {
                let (maxr, r) = ex.log[i];
                if devs + 1 > bound {
                    break;
                }
                for alt in 1..maxr {
                    if alt == r {
                        continue;
                    }
                    let mut p: Vec<usize> = ex.log[..i].iter().map(|x| x.1).collect();
                    p.push(alt);
                    stack.push((p, devs + 1));
                }
            }
        }
        schedules
    }
}

/// The same searcher's in-memory find_iter, guarded (a panic or a runaway
/// iterator there belongs to other properties; here it only must not take
/// the harness down: the SPEC comparison in `explore` reports it).
fn mem_find_iter(ac: &AhoCorasick, stream: &[u8]) -> Vec<M> {
    catch_unwind(AssertUnwindSafe(|| ac.find_iter(stream).take(4 * stream.len() + 8).map(mm).collect())).unwrap_or_default()
}

/// The real default buffer (64 KiB, or 8 x the longest pattern if that is
/// larger), without hook H1: streams a little longer than the buffer with one
/// pattern occurrence placed at every offset around the buffer boundary, under
/// a fixed finite set of read schedules (all maximal reads; a first read that
/// is short by 1..L+1 bytes; reads of 4093 and 65535 bytes).
fn default_capacity_sweep(rep: &Report, mode: Mode, fams: &[Pats]) {
    let mut lists: Vec<Pats> = fams.iter().take(8).cloned().collect();
    // a pattern longer than 8 KiB: the capacity becomes 8 x its length
    lists.push(vec![vec![b'q'; 9000], b("ab")]);
    // patterns as long as / longer than the default capacity itself (64 KiB),
    // at and around powers of two
    let huge_from = lists.len();
    for n in [65535usize, 65536, 65537, 131072] {
        lists.push(vec![(0..n).map(|i| b'g' + (i % 7) as u8).collect(), b("ab")]);
    }
    struct W {
        l: usize,
        kind: AhoCorasickKind,
    }
    let mut items = vec![];
    for l in 0..lists.len() {
        for kind in KINDS {
            items.push(W { l, kind });
        }
    }
    par_for(rep, items.len(), |i, st| {
        let w = &items[i];
        let pats = &lists[w.l];
        if w.l >= huge_from {
            // only the kinds that build quickly for 10^5 states
            if w.kind == AhoCorasickKind::DFA {
                return;
            }
            let ac = match AhoCorasick::builder().kind(Some(w.kind)).build(pats) {
                Ok(a) => a,
                Err(e) => {
                    rep.machinery(format!("build failed: {}", e));
                    return;
                }
            };
            let spec = Spec::new(pats.clone(), false);
            let maxlen = pats[0].len();
            let cap = (maxlen * 8).max(64 * 1024);
            let it = Item { only_work: mode == Mode::Work, pats, kind: w.kind, cap, ac: &ac, spec: &spec, reps: rep_tables(pats.len()) };
            // "ab" before, inside the first maxlen bytes, right after them, far
            // behind; the long pattern once in the middle
            let n = 3 * maxlen + 1000;
            let mut stream = vec![b'.'; n];
            for at in [10usize, maxlen - 1, maxlen + 1, 2 * maxlen + 500, n - 2] {
                stream[at..at + 2].copy_from_slice(b"ab");
            }
            let at = maxlen + 100;
            stream[at..at + maxlen].copy_from_slice(&pats[0]);
            let exp = mem_find_iter_big(&ac, &stream);
            for sc in [vec![], vec![4093], vec![maxlen, 1, 1]] {
                aho_corasick::verif::set_stream_buffer_capacity(None);
                st.add("default_capacity_runs", 1);
                st.add("huge_pattern_stream_runs", 1);
                match mode {
                    Mode::Find | Mode::Work => {
                        it.run_find_cap(rep, st, &stream, &sc, &exp, false);
                    }
                    Mode::Replace => {
                        it.run_replace_cap(rep, st, &stream, &sc, &exp, false);
                    }
                    Mode::Faults => {}
                }
            }
            return;
        }
        let ac = match AhoCorasick::builder().kind(Some(w.kind)).build(pats) {
            Ok(a) => a,
            Err(e) => {
                rep.machinery(format!("build failed: {}", e));
                return;
            }
        };
        let spec = Spec::new(pats.clone(), false);
        let maxlen = pats.iter().map(|p| p.len()).max().unwrap();
        let cap = (maxlen * 8).max(64 * 1024);
        let it = Item { only_work: mode == Mode::Work, pats, kind: w.kind, cap, ac: &ac, spec: &spec, reps: rep_tables(pats.len()) };
        let bt = universe::bottom(pats);
        let n = cap + maxlen + 40;
        for p in pats.iter() {
            // occurrence of p ending at cap - 2 ..= cap + |p| + 1 (every way of
            // straddling the boundary; for a very long pattern: the 12 ends
            // nearest to either extreme)
            for end in (cap - 2)..=(cap + p.len() + 1) {
                if end < p.len() || end > n {
                    continue;
                }
                if p.len() > 24 && end > cap + 10 && end + 10 < cap + p.len() {
                    continue;
                }
                let mut stream = vec![bt; n];
                stream[end - p.len()..end].copy_from_slice(p);
                // a second occurrence right at the start and one at the very end
                stream[..p.len()].copy_from_slice(p);
                let nn = stream.len();
                stream[nn - p.len()..].copy_from_slice(p);
                let exp = mem_find_iter_big(&ac, &stream);
                let mut scheds: Vec<Vec<usize>> = vec![vec![], vec![4093], vec![1, 65535], vec![cap - 1, 1, 1]];
                for d in 1..=(maxlen.min(6) + 1) {
                    scheds.push(vec![cap - d]);
                }
                if mode == Mode::Replace {
                    scheds.truncate(5);
                }
                for sc in &scheds {
                    aho_corasick::verif::set_stream_buffer_capacity(None);
                    st.add("default_capacity_runs", 1);
                    match mode {
                        Mode::Find | Mode::Work => {
                            it.run_find_cap(rep, st, &stream, sc, &exp, false);
                        }
                        Mode::Replace => {
                            it.run_replace_cap(rep, st, &stream, sc, &exp, false);
                        }
                        Mode::Faults => {}
                    }
                }
            }
        }
    });
}

/// A searcher built from NO patterns (longest pattern 0: the roll buffer's
/// minimum is clamped to 1): every stream, every small capacity and the
/// default one, every short read schedule: no match, output == input.
fn zero_pattern_sweep(rep: &Report, mode: Mode) {
    if mode == Mode::Faults {
        return;
    }
    let pats: Pats = vec![];
    let items: Vec<AhoCorasickKind> = KINDS.to_vec();
    par_for(rep, items.len(), |i, st| {
        let kind = items[i];
        let ac = match AhoCorasick::builder().kind(Some(kind)).build(&pats) {
            Ok(a) => a,
            Err(e) => {
                rep.machinery(format!("build of the empty collection failed: {}", e));
                return;
            }
        };
        let spec = Spec::new(pats.clone(), false);
        let mut streams: Vec<Vec<u8>> = vec![vec![], b("x"), b("xy"), b("xyz"), vec![b'q'; 9], vec![b'.'; 100]];
        streams.push((0..70_000usize).map(|k| b'a' + (k % 13) as u8).collect());
        for stream in &streams {
            let scheds: Vec<Vec<usize>> = if stream.len() <= 3 {
                // every composition of the length
                let mut v = vec![vec![]];
                for a in 1..=stream.len() {
                    v.push(vec![a]);
                    for b2 in 1..=stream.len() - a {
                        v.push(vec![a, b2]);
                    }
                }
                v
            } else {
                vec![vec![], vec![1], vec![1, 1, 1], vec![2, 1], vec![stream.len() - 1]]
            };
            for cap in [0usize, 2, 3, 8] {
                if cap != 0 && stream.len() > 200 {
                    continue;
                }
                let it = Item { only_work: mode == Mode::Work, pats: &pats, kind, cap: cap.max(2), ac: &ac, spec: &spec, reps: rep_tables(0) };
                for sc in &scheds {
                    if cap != 0 && sc.iter().any(|&x| x != 1) {
                        continue; // with a tiny buffer only single-byte reads always fit
                    }
                    st.add("zero_pattern_runs", 1);
                    match mode {
                        Mode::Find | Mode::Work => {
                            it.run_find_cap(rep, st, stream, sc, &[], cap != 0);
                        }
                        Mode::Replace => {
                            it.run_replace_cap(rep, st, stream, sc, &[], cap != 0);
                        }
                        Mode::Faults => {}
                    }
                }
            }
        }
    });
    aho_corasick::verif::set_stream_buffer_capacity(None);
}

fn mem_find_iter_big(ac: &AhoCorasick, stream: &[u8]) -> Vec<M> {
    catch_unwind(AssertUnwindSafe(|| ac.find_iter(stream).take(stream.len() + 8).map(mm).collect())).unwrap_or_default()
}

fn rep_tables(n: usize) -> Vec<Vec<Vec<u8>>> {
    vec![
        (0..n).map(|i| format!("<{}>", i).into_bytes()).collect(),
        (0..n).map(|_| vec![]).collect(),
        (0..n).map(|i| vec![b'A' + (i as u8 % 26)]).collect(),
    ]
}

fn caps(min: usize) -> Vec<usize> {
    let mut v = vec![min + 1, min + 2, min + 3, 2 * min, 8 * min];
    v.retain(|&c| c >= min + 1);
    v.sort();
    v.dedup();
    v
}

/// Long streams for the deviation-bounded part.
fn long_streams(pats: &Pats, thorough: bool) -> Vec<Vec<u8>> {
    let mut v = vec![];
    let bt = universe::bottom(pats);
    // pattern-dense: all patterns concatenated, repeated
    let mut dense = vec![];
    while dense.len() < 28 {
        for p in pats {
            dense.extend_from_slice(p);
        }
    }
    dense.truncate(30);
    v.push(dense.clone());
    // periodic with gaps
    let mut per = vec![];
    let mut i = 0;
    while per.len() < 36 {
        per.extend_from_slice(&pats[i % pats.len()]);
        per.push(bt);
        if i % 3 == 2 {
            per.push(bt);
            per.push(bt);
        }
        i += 1;
    }
    per.truncate(if thorough { 40 } else { 32 });
    v.push(per);
    // overlapping prefixes: first pattern minus last byte, repeated, then all
    let p0 = &pats[0];
    let mut t = vec![];
    while t.len() < 24 {
        t.extend_from_slice(&p0[..p0.len().saturating_sub(1).max(1)]);
    }
    t.extend_from_slice(p0);
    t.truncate(28);
    v.push(t);
    v
}

pub fn run(rep: &Report, mode: Mode) -> i32 {
    let t = rep.thorough();
    let fams = families(t);
    let maxlen = match (mode, t) {
        (Mode::Find, false) => 8,
        (Mode::Find, true) => 9,
        (Mode::Replace, false) => 7,
        (Mode::Replace, true) => 8,
        (Mode::Faults, false) => 6,
        (Mode::Faults, true) => 7,
        (Mode::Work, false) => 6,
        (Mode::Work, true) => 7,
    };
    let dev_bound = if t { 3 } else { 2 };
    // completeness self-test of the DFS: with an unbounded buffer a stream of
    // n bytes has exactly 2^(n-1) schedules.
    // (run on a harness fixture - a plain read-until-EOF loop with a big
    // buffer - so that a broken library cannot break the self-test)
    {
        let data = b"abzabz";
        let mut stack: Vec<Vec<usize>> = vec![vec![]];
        let mut n = 0u64;
        let mut logs = std::collections::HashSet::new();
        while let Some(prefix) = stack.pop() {
            n += 1;
            let mut rdr = SchedReader::new(data, &prefix, None);
            let mut buf = [0u8; 64];
            let mut total = vec![];
            loop {
                let k = rdr.read(&mut buf).unwrap();
                if k == 0 {
                    break;
                }
                total.extend_from_slice(&buf[..k]);
            }
            if total != data {
                rep.machinery("SchedReader fixture lost data".into());
            }
            logs.insert(rdr.log.iter().map(|x| x.1).collect::<Vec<_>>());
            for i in prefix.len()..rdr.log.len() {
                let (maxr, r) = rdr.log[i];
                for alt in 1..maxr {
                    if alt != r {
                        let mut p: Vec<usize> = rdr.log[..i].iter().map(|x| x.1).collect();
                        p.push(alt);
                        stack.push(p);
                    }
                }
            }
        }
        if n != 32 || logs.len() != 32 {
            rep.machinery(format!("schedule DFS completeness self-test failed: {} schedules ({} distinct) for 6 bytes, expected 32", n, logs.len()));
        }
        rep.count("selftest_schedules_6_bytes", n);
    }
    // work items: family x kind x capacity
    struct W {
        f: usize,
        kind: AhoCorasickKind,
        cap: usize,
    }
    let mut items = vec![];
    for (f, pats) in fams.iter().enumerate() {
        let min = pats.iter().map(|p| p.len()).max().unwrap().max(1);
        for kind in KINDS {
            for cap in caps(min) {
                items.push(W { f, kind, cap });
            }
        }
    }
    rep.count("families", fams.len() as u64);
    rep.count("work_items", items.len() as u64);
    par_for(rep, items.len(), |i, st| {
        let w = &items[i];
        let pats = &fams[w.f];
        let ac = match AhoCorasick::builder().kind(Some(w.kind)).build(pats) {
            Ok(a) => a,
            Err(e) => {
                rep.machinery(format!("build failed: {}", e));
                return;
            }
        };
        let spec = Spec::new(pats.clone(), false);
        let it = Item { only_work: mode == Mode::Work, pats, kind: w.kind, cap: w.cap, ac: &ac, spec: &spec, reps: rep_tables(pats.len()) };
        let alpha = universe::hay_alpha(pats, false);
        // full bound: every schedule of every stream up to maxlen (the
        // alphabet is sigma(P) + bottom; larger alphabets get shorter streams)
        let n = universe::len_for_budget(alpha.len(), universe::count_strings(3, maxlen), maxlen);
        {
            // determinism: one schedule replayed twice gives the same log
            let s: Vec<u8> = pats.iter().flat_map(|p| p.iter().copied()).chain(std::iter::once(alpha[0])).collect();
            let exp: Vec<M> = mem_find_iter(&ac, &s);
            let mut st2 = Stats::default();
            let nv = rep.nviol();
            let a = it.run_find(rep, &mut st2, &s, &[1], &exp);
            let b2 = it.run_find(rep, &mut st2, &s, &[1], &exp);
            if a.log != b2.log && rep.nviol() == nv {
                rep.machinery("nondeterministic replay of one schedule".into());
            }
        }
        for s in universe::strings(&alpha, n) {
            if s.is_empty() && mode != Mode::Find {
                continue;
            }
            st.add("streams", 1);
            if s.len() > w.cap {
                st.add("streams_longer_than_buffer", 1);
            }
            it.explore(rep, st, mode, &s, usize::MAX);
        }
        // beyond: long streams, bounded deviations from the maximal answer
        if mode != Mode::Faults || t {
            for s in long_streams(pats, t) {
                st.add("long_streams", 1);
                let b = if mode == Mode::Find { dev_bound } else { dev_bound - 1 };
                it.explore(rep, st, mode, &s, b);
            }
        }
        if rep.nsamples() < 3 && i % 7 == 3 {
            rep.sample(
                J::obj()
                    .set("patterns", J::s(pats_show(pats)))
                    .set("kind", J::s(kind_name(w.kind)))
                    .set("buffer_capacity", J::i(w.cap as i64))
                    .set("stream_alphabet", J::s(json::show(&alpha)))
                    .set("full_bound_stream_len", J::i(n as i64))
                    .set("example_stream", J::s(json::show(&long_streams(pats, t)[0])))
                    .set("example_schedule", J::s("every composition of the stream length into read sizes (bounded by the free buffer space at each read)")),
            );
        }
    });
    aho_corasick::verif::set_stream_buffer_capacity(None);
    default_capacity_sweep(rep, mode, &fams);
    zero_pattern_sweep(rep, mode);
    let execs = rep.get("executions");
    if mode == Mode::Work {
        // evidence is written by the caller (C19 combines E1 and this sweep)
        return 0;
    }
    let (level, rule) = match mode {
        Mode::Work => unreachable!(),
        Mode::Find => ("model_checking", "choice-prefix DFS over the reader's answers: for every pattern family x automaton kind x roll-buffer capacity (min+1, min+2, min+3, 2min, 8min via hook H1) x every stream over sigma(P)+bottom up to the full-bound length: every sequence of read sizes the free buffer space allows; each execution runs the real try_stream_find_iter to completion and is compared with the same searcher's in-memory find_iter (itself compared with SPEC); beyond the full bound: streams of 28-40 bytes with a bounded number of deviations from the maximal read"),
        Mode::Replace => ("model_checking", "as C07, on try_stream_replace_all (3 replacement tables x writers accepting all/1/2 bytes per call) and try_stream_replace_all_with (closure must be handed exactly stream[mat.range()] with absolute offsets); output compared with the splice of the in-memory find_iter"),
        Mode::Faults => ("fault_enumeration", "for every schedule of every stream (as C07): an injected read error at every read call index (stream_find_iter and stream replace) and a writer that fails after every number k of accepted bytes (with 1-byte short writes and without); oracle: no panic, exactly one error surfaced, matches before it are a prefix of the fault-free sequence, bytes written are a prefix of the fault-free output, end of stream only after the reader returned Ok(0)"),
    };
    let mut cov = J::obj()
        .set("states", J::i(execs.max(1)))
        .set("transitions", J::i(rep.get("schedules").max(1)))
        .set("traces_validated_against_impl", J::i(execs))
        .set("evaluations", J::i(execs.max(1)))
        .set("distinct_nontrivial", J::i(rep.get("schedules")))
        .set("rule", J::s(rule))
        .set("nontrivial_rule", J::s("a (family, kind, capacity, stream, complete read-size schedule) tuple counts once; 'states' = executions of the real code run to completion, 'transitions' = distinct schedules"))
        .set("schedules", J::i(rep.get("schedules")))
        .set("executions_with_roll", J::i(rep.get("executions_with_roll")))
        .set("exhaustive", J::Bool(true))
        .set("bounds", J::s(format!("full: streams up to {} bytes over sigma(P)+bottom (alphabet 3; shorter for larger alphabets), all schedules; beyond: long streams with <= {} deviations; capacities min+1..8min; {} families x 3 kinds", maxlen, dev_bound, fams.len())))
        .set("design_ref", J::s("3, 7"));
    if mode == Mode::Faults {
        cov.put("fault_points", J::i(rep.get("fault_points")));
    }
    if execs == 0 && rep.nviol() == 0 {
        rep.machinery("vacuous run".into());
    }
    if mode == Mode::Find && rep.get("executions_with_roll") == 0 {
        rep.machinery("no execution rolled the buffer: hook H1 ineffective?".into());
    }
    rep.finish(
        level,
        cov,
        &[
            "the reader/writer environment is owned completely by the harness (SchedReader/SchedWriter); a reader never returns 0 before the end of its data",
            "hook H1 only shrinks the roll buffer's capacity (never below longest pattern + 1)",
            "behaviour after an I/O error has been reported is observed, not judged",
        ],
    )
}

/// Replay of an "io" case.
pub fn replay(case: &J) -> i32 {
    let pats = crate::report::pats_from_j(case.get("patterns").unwrap_or(&J::Null));
    let kind = kind_from(&case.str_of("kind"));
    let cap = case.usize_of("capacity");
    let stream = json::unhex(&case.str_of("stream"));
    let sched: Vec<usize> = case.get("schedule").and_then(|a| a.as_arr()).map_or(vec![], |a| a.iter().filter_map(|x| x.as_usize()).collect());
    let mode = case.str_of("mode");
    println!("patterns={} kind={} capacity={} stream=\"{}\" schedule={:?} mode={}", pats_show(&pats), kind_name(kind), cap, json::show(&stream), sched, mode);
    let ac = match AhoCorasick::builder().kind(Some(kind)).build(&pats) {
        Ok(a) => a,
        Err(e) => {
            println!("build failed: {}", e);
            return 1;
        }
    };
    let spec = Spec::new(pats.clone(), false);
    let it = Item { only_work: false, pats: &pats, kind, cap, ac: &ac, spec: &spec, reps: rep_tables(pats.len()) };
    let rep = Report::new(&case.str_of("property"), "quick");
    let mut st = Stats::default();
    let exp: Vec<M> = mem_find_iter(&ac, &stream);
    println!("in-memory find_iter: {:?}", exp);
    match mode.as_str() {
        "find" => {
            it.run_find(&rep, &mut st, &stream, &sched, &exp);
        }
        "replace" | "replace_with" => {
            it.run_replace(&rep, &mut st, &stream, &sched, &exp);
        }
        _ => {
            it.run_faults(&rep, &mut st, &stream, &sched, &exp);
        }
    }
    if rep.nviol() > 0 {
        println!("violation reproduced ({} finding(s))", rep.nviol());
        1
    } else {
        0
    }
}
