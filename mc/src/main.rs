//! Model-checking harness for BurntSushi/aho-corasick. See /verif/DESIGN.md.
//!
//! usage: mc <PROPERTY-ID> <quick|thorough>
//!        mc replay <file>
//!        mc selftest

mod api;
mod aut;
mod e1;
mod e1run;
mod e2;
mod e3;
mod e4;
mod e5;
mod e6;
mod json;
mod props;
mod report;
mod spec;
mod universe;

fn main() {
    let args: Vec<String> = std::env::args().collect();
    // library panics are caught and classified; keep stderr quiet
    std::panic::set_hook(Box::new(|_| {}));
    if args.len() >= 3 && args[1] == "replay" {
        std::process::exit(props::replay(&args[2]));
    }
    if args.len() >= 2 && args[1] == "selftest" {
        match spec::self_check() {
            Ok(n) => {
                println!("SPEC self-check ok ({} comparisons)", n);
                std::process::exit(0);
            }
            Err(e) => {
                println!("MACHINERY-ERROR: {}", e);
                std::process::exit(2);
            }
        }
    }
    if args.len() >= 3 {
        let (pid, tier) = match args[1].as_str() {
            "C17-sched-child" => ("C17".to_string(), args[2].clone()),
            "C15-child" => ("C15".to_string(), args[2].clone()),
            other => (other.to_string(), args[2].clone()),
        };
        report::start_main_watchdog(pid, tier);
    }
    if args.len() >= 5 && args[1] == "C17-sched-child" {
        std::process::exit(e5::sched_child(&args[2], args[3].parse().unwrap_or(0), args[4].parse().unwrap_or(1)));
    }
    if args.len() >= 6 && args[1] == "C15-child" {
        let only = args.get(6).and_then(|s| s.parse().ok());
        std::process::exit(e6::child(&args[2], args[3].parse().unwrap_or(0), args[4].parse().unwrap_or(1), &args[5], only));
    }
    if args.len() >= 2 && args[1] == "C17-free" {
        let light = args.get(2).map_or(true, |a| a != "full");
        let rounds = args.get(3).and_then(|a| a.parse().ok()).unwrap_or(1);
        std::process::exit(e5::free_main(light, rounds));
    }
    if args.len() >= 2 && args[1] == "C15-selftest-oob" {
        std::process::exit(e6::selftest_oob());
    }
    if args.len() < 3 {
        eprintln!("usage: mc <ID> <quick|thorough> | mc replay <file> | mc selftest");
        std::process::exit(2);
    }
    let tier = if args[2] == "thorough" { "thorough" } else { "quick" };
    std::process::exit(props::run(&args[1], tier));
}
