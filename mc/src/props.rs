//! Per-property drivers: which engine, which universe, which oracle.

use crate::api::Api;
use crate::e1run::{self, defs, defs_named, ApiMode, Explore, ModelDef, Opts};
use crate::json::{self, J};
use crate::report::Report;
use crate::spec::Kind;
use crate::universe as u;

pub fn run(id: &str, tier: &str) -> i32 {
    if let Err(e) = crate::spec::self_check() {
        println!("MACHINERY-ERROR: {}", e);
        return 2;
    }
    let rep = Report::new(id, tier);
    match id {
        "C01" | "C02" | "C03" | "C04" | "C09" | "C11" | "C14" | "C16" | "C19" => run_e1(&rep),
        "C15" => crate::e6::run(&rep),
        "C17" => crate::e5::run(&rep),
        "C12" => crate::e4::run_c12(&rep),
        "C13" => crate::e4::run_c13(&rep),
        "C20" => crate::e4::run_c20(&rep),
        "C05" => crate::e3::run_c05(&rep),
        "C06" => crate::e3::run_c06(&rep),
        "C10" => crate::e3::run_c10(&rep),
        "C07" => crate::e2::run(&rep, crate::e2::Mode::Find),
        "C08" => crate::e2::run(&rep, crate::e2::Mode::Replace),
        "C18" => crate::e2::run(&rep, crate::e2::Mode::Faults),
        _ => {
            println!("MACHINERY-ERROR: unknown property {}", id);
            2
        }
    }
}

pub fn replay(path: &str) -> i32 {
    let text = match std::fs::read_to_string(path) {
        Ok(t) => t,
        Err(e) => {
            println!("cannot read {}: {}", path, e);
            return 2;
        }
    };
    let j = match json::parse(&text) {
        Ok(j) => j,
        Err(e) => {
            println!("cannot parse {}: {}", path, e);
            return 2;
        }
    };
    println!("replaying {} ({})", j.str_of("property"), j.str_of("what"));
    let case = match j.get("case") {
        Some(c) => c.clone(),
        None => return 2,
    };
    let code = match case.str_of("engine").as_str() {
        "api" => {
            if case.str_of("mode") == "recipe" || case.str_of("mode") == "counters" {
                e1run::replay_mode(&case)
            } else {
                crate::api::replay(&case)
            }
        }
        "table" => e1run::replay_table(&case),
        "io" => crate::e2::replay(&case.clone().set("property", J::s(j.str_of("property")))),
        "packed" => crate::e3::replay_packed(&case),
        "guard" | "guard-crash" => crate::e6::replay(&case),
        "sched" => crate::e5::replay(&case),
        "c12" => crate::e4::replay_c12(&case),
        "c13" => crate::e4::replay_c13(&case),
        "c20" => crate::e4::replay_c20(&case),
        "acdiff" => crate::e3::replay_acdiff(&case),
        "hang" => {
            println!("re-running the whole check at tier {} (the recorded case was a work item that made no progress: {})", case.str_of("tier"), case.str_of("item_desc"));
            return run(&j.str_of("property"), &case.str_of("tier"));
        }
        other => {
            println!("unknown engine {}", other);
            2
        }
    };
    if code == 1 {
        println!("VIOLATION property={} replay={}", j.str_of("property"), path);
    } else if code == 0 {
        println!("replay: property holds on this case");
    }
    code
}

fn base_models(rep: &Report, kinds: &[Kind]) -> Vec<ModelDef> {
    let mut v = vec![];
    if rep.thorough() {
        v.extend(defs("U2", u::u2(), kinds, false));
    } else {
        v.extend(defs("U1", u::u1(), kinds, false));
    }
    v.extend(defs("Uedge", u::uedge(), kinds, false));
    v.extend(defs_named(u::uadv(rep.thorough()), kinds, false));
    // the pattern lists that select each prefilter variant (memmem, start
    // bytes, rare bytes, packed): with the long-template replays the search
    // loops run together with every kind of prefilter
    let pre: Vec<(String, u::Pats)> = crate::e3::prefilter_families().into_iter().filter(|f| !f.ci).map(|f| (format!("Upre:{}", f.name), f.pats)).collect();
    v.extend(defs_named(pre, kinds, false));
    // ascii_case_insensitive is a builder option like any other: a small
    // slice of every property's universe is built with it (C11 goes deep)
    v.extend(defs("U0ci", u::u0(), kinds, true));
    // ... and the three-pattern lists in which a pattern comes after one of
    // its proper prefixes AND after one of its proper extensions
    let between = |l: &u::Pats| {
        (0..l.len()).any(|k| {
            (0..k).any(|i| l[i].len() < l[k].len() && l[k].starts_with(&l[i])) && (0..k).any(|j| l[j].len() > l[k].len() && l[j].starts_with(&l[k]))
        })
    };
    v.extend(defs("U1ci", u::u1().into_iter().filter(|l| between(l)).collect(), kinds, true));
    v.extend(defs_named(u::uci_adv(), kinds, true));
    v
}

fn ci_models(rep: &Report, kinds: &[Kind]) -> Vec<ModelDef> {
    let mut v = defs("Uci", u::uci(rep.thorough()), kinds, true);
    let adv: Vec<(String, u::Pats)> = u::uadv(false)
        .into_iter()
        .filter(|(n, _)| ["case-pairs", "samwise", "suffixes-rot0", "a^3b", "empty-middle"].contains(&n.as_str()))
        .collect();
    v.extend(defs_named(adv, kinds, true));
    v.extend(defs("U0ci", u::u0(), kinds, true));
    // "bytes >= 0x80 and all non-letters must match exactly": the ends of the
    // byte range and the ASCII boundary under folding (every table is
    // stepped with all 256 byte values, so a class shared between 0xFE and
    // 0xFF, or 0x7F and 0x80, shows at the table level)
    v.extend(defs("UedgeCi", u::uedge(), kinds, true));
    v.extend(defs_named(u::uci_adv(), kinds, true));
    let pre: Vec<(String, u::Pats)> = crate::e3::prefilter_families().into_iter().filter(|f| f.ci).map(|f| (format!("Upre:{}", f.name), f.pats)).collect();
    v.extend(defs_named(pre, kinds, true));
    v
}

fn run_e1(rep: &Report) -> i32 {
    let t = rep.thorough();
    let all = Kind::ALL;
    if rep.property == "C03" {
        // match lists of about 2^16 entries in one state
        crate::e3::check_huge_match_lists(rep);
    }
    if rep.property == "C02" || rep.property == "C04" || rep.property == "C03" {
        // thousands of dense rows (large alphabet, thousands of patterns)
        crate::e3::check_many_dense_rows(rep);
    }
    if rep.property == "C04" || rep.property == "C03" {
        // pattern ids beyond 2^15 / 2^16 (every automaton kind must agree with
        // the expected list, hence with each other)
        crate::e3::check_huge_id_space(rep);
    }
    if rep.property == "C14" || rep.property == "C09" {
        // "occurs in the span": the span is whatever the caller stated
        // through Input, by any of its constructors / setters (C09: and the
        // anchored flag is whatever the caller stated, in any order)
        let mut st = crate::report::Stats::default();
        crate::e3::check_input_forms(rep, &mut st);
        rep.merge(&st);
    }
    let (models, o, rule, design, assumptions): (Vec<ModelDef>, Opts, &str, &str, Vec<&str>) = match rep.property.as_str() {
        "C01" => (
            base_models(rep, &[Kind::LF, Kind::LL]),
            Opts {
                explore: vec![Explore::Find { anchored: false, earliest: false }],
                low_pre: vec![true, false],
                top: true,
                api_mode: ApiMode::Spec,
                apis: vec![Api::Find, Api::Iter],
                api_anchored: vec![false],
                layer2_budget: if t { 10_000 } else { 1_200 },
                layer2_cap: if t { 8 } else { 7 },
                span_len: if t { 5 } else { 4 },
                counters: false,
                long_templates: true,
            },
            "per model (pattern list x leftmost kind): closed product of (real automaton state via next_state over all 256 bytes) x (documented search recipe state) x (SPEC reference state = active partial occurrences + normalised verdict) for each of 15 low-level representations x prefilter on/off; recorded match compared with SPEC leftmost on every transition; then every BFS witness and every haystack over sigma(P)+bottom up to the layer-2 length x every span is run through try_find/find_iter of 48 real searchers and compared with SPEC",
            "2, 7 (C01)",
            vec!["SPEC (naive quadratic reference, two formulations cross-checked at start-up) is the definition of the property", "haystack bytes outside sigma(P) are interchangeable for the reference (table exploration still drives all 256)"],
        ),
        "C02" => (
            base_models(rep, &[Kind::Std]),
            Opts {
                explore: vec![Explore::Find { anchored: false, earliest: false }],
                low_pre: vec![true, false],
                top: true,
                api_mode: ApiMode::Spec,
                apis: vec![Api::Find, Api::Iter],
                api_anchored: vec![false],
                layer2_budget: if t { 10_000 } else { 1_200 },
                layer2_cap: if t { 8 } else { 7 },
                span_len: if t { 5 } else { 4 },
                counters: false,
                long_templates: true,
            },
            "per model (pattern list, standard kind): closed product as for C01 with the standard recipe (return at first match state); result compared with SPEC earliest-end/longest/first-supplied on every transition; witnesses and layer 2 x spans through try_find/find_iter of 48 real searchers vs SPEC",
            "2, 7 (C02)",
            vec!["SPEC is the definition of the property"],
        ),
        "C03" => (
            base_models(rep, &[Kind::Std]),
            Opts {
                explore: vec![Explore::Walk { anchored: false }],
                low_pre: vec![true, false],
                top: true,
                api_mode: ApiMode::Spec,
                apis: vec![Api::OvSteps, Api::OvIter],
                api_anchored: vec![false],
                layer2_budget: if t { 10_000 } else { 1_200 },
                layer2_cap: if t { 8 } else { 7 },
                span_len: if t { 5 } else { 4 },
                counters: false,
                long_templates: true,
            },
            "per model: every reachable (state, byte) of each representation; the full match list of every state must equal the patterns that are a suffix of the input, longest first then supply order, each once (so overlapping search reports every occurrence exactly once in end order for haystacks of every length); then stepwise try_find_overlapping on one OverlappingState until None plus 3 further calls (must stay None) and find_overlapping_iter on witnesses and layer 2 x spans vs SPEC's ordered occurrence list",
            "2, 7 (C03)",
            vec!["SPEC is the definition of the property"],
        ),
        "C04" => (
            base_models(rep, &all),
            Opts {
                explore: vec![Explore::Joint { anchored: false }, Explore::Joint { anchored: true }],
                low_pre: if t { vec![true, false] } else { vec![true] },
                top: true,
                api_mode: ApiMode::Diff,
                apis: vec![Api::Find, Api::Earliest, Api::IsMatch, Api::Iter, Api::OvSteps, Api::OvIter],
                api_anchored: vec![false, true],
                layer2_budget: if t { 3_500 } else { 400 },
                layer2_cap: 7,
                span_len: if t { 4 } else { 3 },
                counters: false,
                long_templates: true,
            },
            "per model: lock-step product of all low-level representations (nNFA dense depth 0/1/3, cNFA dense depth 0/1/2 x byte classes, DFA start kind U/A/B x byte classes, a cNFA and a DFA built by their own builders, and for default configurations the plain constructors NFA::new / DFA::new) advanced through next_state on all 256 bytes until the joint reachable set is closed, unanchored and anchored; in every joint state the search-observable behaviour must agree (standard: whole match list; leftmost: the match the documented loop has recorded); no SPEC involved. Then all six search APIs on all 24 searchers (incl. top-level automatic/explicit kinds) must return identical results on witnesses and layer 2 x spans x anchoring",
            "2, 7 (C04)",
            vec!["compares only search-observable behaviour (match lists, recorded match, API results); state numbering, is_special/is_start and the moment a representation enters the dead state are deliberately not compared"],
        ),
        "C09" => (
            base_models(rep, &all),
            Opts {
                explore: vec![
                    Explore::Find { anchored: true, earliest: false },
                    Explore::Find { anchored: true, earliest: true },
                    Explore::Walk { anchored: true },
                ],
                low_pre: vec![true],
                top: true,
                api_mode: ApiMode::Spec,
                apis: vec![Api::Find, Api::Iter, Api::OvSteps],
                api_anchored: vec![true],
                layer2_budget: if t { 10_000 } else { 1_200 },
                layer2_cap: if t { 8 } else { 7 },
                span_len: if t { 5 } else { 4 },
                counters: false,
                long_templates: true,
            },
            "per model and match kind: closed product from the anchored start state of each representation that supports anchoring (both NFAs, DFA Anchored/Both) with SPEC restricted to occurrences starting at the span start; match lists filtered to full-length matches must be exactly the anchored occurrences, dead is never entered while a pattern can still match; then anchored try_find / find_iter / stepwise overlapping on witnesses and layer 2 x every span start vs SPEC anchored",
            "2, 7 (C09)",
            vec!["SPEC is the definition of the property"],
        ),
        "C11" => (
            {
                let mut v = ci_models(rep, &all);
                v.extend(defs_named(u::uci_case_dups(), &all, true));
                v
            },
            Opts {
                explore: vec![
                    Explore::Find { anchored: false, earliest: false },
                    Explore::Find { anchored: true, earliest: false },
                    Explore::Walk { anchored: false },
                    Explore::Walk { anchored: true },
                ],
                low_pre: vec![true, false],
                top: true,
                api_mode: ApiMode::Spec,
                apis: vec![Api::Find, Api::Iter, Api::OvSteps],
                api_anchored: vec![false, true],
                layer2_budget: if t { 6_000 } else { 800 },
                layer2_cap: 6,
                span_len: 3,
                counters: false,
                long_templates: true,
            },
            "pattern lists over a case/boundary alphabet (a, A, @, `, [, {, 0xC1, 0xE1) built with ascii_case_insensitive: closed product over all 256 bytes with SPEC that folds exactly A-Z to a-z; pattern identifiers must be those of the patterns as supplied; then APIs on witnesses and layer 2 over sigma(P) + opposite cases + bottom vs SPEC, prefilter on and off",
            "2, 7 (C11)",
            vec!["SPEC is the definition of the property"],
        ),
        "C14" => (
            base_models(rep, &all),
            Opts {
                explore: vec![
                    Explore::Find { anchored: false, earliest: true },
                    Explore::Find { anchored: true, earliest: true },
                ],
                low_pre: vec![true, false],
                top: true,
                api_mode: ApiMode::Spec,
                apis: vec![Api::IsMatch, Api::Earliest, Api::Find],
                api_anchored: vec![false, true],
                layer2_budget: if t { 10_000 } else { 1_200 },
                layer2_cap: if t { 8 } else { 7 },
                span_len: if t { 5 } else { 4 },
                counters: false,
                long_templates: true,
            },
            "per model: closed product with the earliest recipe (return at the first admissible match state): the result must be a genuine occurrence ending no later than SPEC's normal answer, and exist iff SPEC's exists; then is_match, earliest try_find and normal try_find of 48 real searchers on witnesses and layer 2 x spans x anchoring: is_match == (SPEC occurrence set non-empty) == find.is_some(), earliest is an occurrence with end <= normal end",
            "2, 7 (C14)",
            vec!["SPEC is the definition of the property"],
        ),
        "C16" => (
            base_models(rep, &all),
            Opts {
                explore: vec![Explore::Contract],
                low_pre: vec![true, false],
                top: false,
                api_mode: ApiMode::Recipe,
                apis: vec![],
                api_anchored: vec![false, true],
                layer2_budget: if t { 10_000 } else { 1_200 },
                layer2_cap: if t { 8 } else { 7 },
                span_len: if t { 5 } else { 4 },
                counters: false,
                long_templates: true,
            },
            "per low-level automaton (30 per model): every state reachable from either start state through next_state with any of 256 bytes and either anchoring argument: no panic, dead absorbing under both arguments, dead/match => special, special => dead|match|start, match states list >= 1 pattern id < patterns_len, start_state fails exactly for unsupported anchoring; then the documented caller-written loop (harness code over the public trait) vs the built-in try_find on layer 2 x spans x anchoring x earliest",
            "2, 7 (C16)",
            vec!["the recipe is the one in the Automaton trait documentation, with the anchored start filter of the built-in loop"],
        ),
        "C19" => (
            {
                let mut v = base_models(rep, &all);
                v.extend(ci_models(rep, &[Kind::Std, Kind::LF]).into_iter().step_by(if t { 1 } else { 4 }));
                v
            },
            Opts {
                explore: vec![Explore::Work],
                low_pre: vec![true, false],
                top: true,
                api_mode: ApiMode::None,
                apis: vec![Api::Find, Api::Earliest, Api::Iter, Api::OvSteps],
                api_anchored: vec![false, true],
                layer2_budget: if t { 3_500 } else { 400 },
                layer2_cap: 7,
                span_len: if t { 4 } else { 3 },
                counters: true,
                long_templates: true,
            },
            "per NFA representation: explicit weighted state graph over all (state, byte) pairs, weight = failure transitions followed by that single next_state call (hook counter) minus one; Bellman-Ford longest path from the start state must converge with maximum <= 0, i.e. for every haystack of every length, at every prefix, failure traversals <= transitions; DFA: zero failure traversals. Then hook counters on every built-in search call over witnesses/layer 2: positions strictly increasing inside the span (so <= 1 transition per byte), failure traversals never ahead of transitions",
            "2, 7 (C19), 8 (H2)",
            vec!["counts the quantities named in the statement (transitions, failure traversals, cursor monotonicity), not wall-clock time nor memchr work inside prefilters", "hook H2 counters are additive instrumentation"],
        ),
        _ => unreachable!(),
    };
    let mut o = o;
    if o.counters {
        o.api_mode = ApiMode::Counters;
    }
    let t_base = std::time::Instant::now();
    if std::env::var("VERIF_SKIP_BASE").is_err() {
        e1run::run(rep, &models, &o);
    }
    rep.count("phase_base_ms", t_base.elapsed().as_millis() as u64);
    let t_deep = std::time::Instant::now();
    // deep structured universes, table level only, reduced representation set
    {
        use crate::aut::{Cfg, Rep, Sk};
        use e1run::Deep;
        let reps = [
            Cfg { rep: Rep::N { dd: 1 }, pre: false },
            Cfg { rep: Rep::C { dd: 1, bc: true }, pre: false },
            Cfg { rep: Rep::D { sk: Sk::B, bc: true }, pre: false },
            // the one-start DFA is built by a different routine than the
            // two-start one
            Cfg { rep: Rep::D { sk: Sk::U, bc: true }, pre: false },
        ];
        let (kinds, explores): (Vec<Kind>, Vec<Explore>) = match rep.property.as_str() {
            "C01" => (vec![Kind::LF, Kind::LL], vec![Explore::Find { anchored: false, earliest: false }]),
            "C02" => (vec![Kind::Std], vec![Explore::Find { anchored: false, earliest: false }]),
            "C03" => (vec![Kind::Std], vec![Explore::Walk { anchored: false }]),
            "C04" => (all.to_vec(), vec![Explore::Joint { anchored: false }, Explore::Joint { anchored: true }]),
            "C09" => (all.to_vec(), vec![Explore::Find { anchored: true, earliest: false }, Explore::Walk { anchored: true }]),
            "C11" => (all.to_vec(), vec![Explore::Find { anchored: false, earliest: false }, Explore::Walk { anchored: false }, Explore::Find { anchored: true, earliest: false }]),
            // the normal search is part of the statement too ("is_match iff
            // find returns a match iff a pattern occurs")
            "C14" => (all.to_vec(), vec![Explore::Find { anchored: false, earliest: true }, Explore::Find { anchored: true, earliest: true }, Explore::Find { anchored: false, earliest: false }]),
            "C16" => (if t { all.to_vec() } else { vec![Kind::Std, Kind::LF] }, vec![Explore::Contract]),
            "C19" => (vec![Kind::Std, Kind::LF], vec![Explore::Work]),
            _ => (vec![], vec![]),
        };
        let ci = rep.property == "C11";
        let subs = |words: Vec<Vec<u8>>, maxk: usize, ci: bool| -> Vec<Deep> { words.into_iter().map(|w| Deep::Subs { word: w, maxk, ci, opts: 2 }).collect() };
        let subs3 = |words: Vec<Vec<u8>>, maxk: usize| -> Vec<Deep> { words.into_iter().map(|w| Deep::Subs { word: w, maxk, ci: false, opts: 3 }).collect() };
        let mut deeps: Vec<Deep> = vec![];
        if ci {
            deeps.push(Deep::Tuples { name: "D3ci-aAb@-len2", alpha: b"aAb@", minlen: 0, maxlen: 2, k: 3, ci: true });
            deeps.push(Deep::Tuples { name: "D2ci-aAb-len3", alpha: b"aAb", minlen: 0, maxlen: 3, k: 2, ci: true });
            deeps.extend(subs(vec![b"abAB".to_vec(), b"aBab".to_vec(), b"AbaB".to_vec(), b"a@A`".to_vec()], 3, true));
            if t {
                deeps.extend(subs(vec![b"abABa".to_vec(), b"aAbBa".to_vec(), b"ABabA".to_vec()], 4, true));
            }
        } else if t && ["C04", "C16", "C19"].contains(&rep.property.as_str()) {
            // (these step the noncontiguous NFA, see below: the thorough tier
            // uses the other properties' quick sets)
            deeps.push(Deep::Tuples { name: "D4-ab-len3", alpha: b"ab", minlen: 0, maxlen: 3, k: 4, ci: false });
            deeps.push(Deep::Tuples { name: "D3-ab-len4", alpha: b"ab", minlen: 1, maxlen: 4, k: 3, ci: false });
            deeps.push(Deep::Tuples { name: "D3-abc-len2", alpha: b"abc", minlen: 0, maxlen: 2, k: 3, ci: false });
            deeps.extend(subs(e1run::rg_words(4), 4, false));
            deeps.extend(subs3(e1run::rg_words(4), 3));
        } else if t {
            deeps.push(Deep::Tuples { name: "D4-ab-len4", alpha: b"ab", minlen: 0, maxlen: 4, k: 4, ci: false });
            deeps.push(Deep::Tuples { name: "D3-ab-len5", alpha: b"ab", minlen: 1, maxlen: 5, k: 3, ci: false });
            deeps.push(Deep::Tuples { name: "D3-abc-len3", alpha: b"abc", minlen: 0, maxlen: 3, k: 3, ci: false });
            deeps.push(Deep::Tuples { name: "D4-abc-len2", alpha: b"abc", minlen: 1, maxlen: 2, k: 4, ci: false });
            deeps.extend(subs(e1run::rg_words(4), 4, false));
            deeps.extend(subs(e1run::rg_words(5), 4, false));
            deeps.extend(subs3(e1run::rg_words(4), 4));
        } else if ["C04", "C16", "C19"].contains(&rep.property.as_str()) {
            // these step the noncontiguous NFA through its (slow) leftmost
            // post-match states: smaller universes in the quick tier
            deeps.push(Deep::Tuples { name: "D3-ab-len3", alpha: b"ab", minlen: 0, maxlen: 3, k: 3, ci: false });
            deeps.push(Deep::Tuples { name: "D3-abc-len2", alpha: b"abc", minlen: 0, maxlen: 2, k: 3, ci: false });
            deeps.extend(subs(e1run::rg_words(4), 3, false));
            deeps.extend(subs3(e1run::rg_words(4), 2));
        } else {
            deeps.push(Deep::Tuples { name: "D4-ab-len3", alpha: b"ab", minlen: 0, maxlen: 3, k: 4, ci: false });
            deeps.push(Deep::Tuples { name: "D3-ab-len4", alpha: b"ab", minlen: 1, maxlen: 4, k: 3, ci: false });
            deeps.push(Deep::Tuples { name: "D3-abc-len2", alpha: b"abc", minlen: 0, maxlen: 2, k: 3, ci: false });
            deeps.extend(subs(e1run::rg_words(4), 4, false));
            deeps.extend(subs(vec![b"abcde".to_vec(), b"zyxwv".to_vec(), b"abcab".to_vec(), b"aabab".to_vec(), b"zyxzy".to_vec(), b"abcba".to_vec()], 3, false));
            deeps.extend(subs3(e1run::rg_words(4), 3));
        }
        if !explores.is_empty() && std::env::var("VERIF_SKIP_DEEP").is_err() {
            e1run::run_deep(rep, &deeps, &kinds, &explores, &reps);
        }
    }
    rep.count("phase_deep_ms", t_deep.elapsed().as_millis() as u64);
    if rep.property == "C19" {
        // stream searches: the same schedule exploration as C07, judging only
        // the work counters (positions never go backwards across rolls)
        crate::e2::run(rep, crate::e2::Mode::Work);
    }
    let states = rep.get("states");
    let transitions = rep.get("transitions");
    let cov = J::obj()
        .set("states", J::i(states.max(1)))
        .set("transitions", J::i(transitions.max(1)))
        .set("traces_validated_against_impl", J::i(rep.get("api_cases")))
        .set("evaluations", J::i(rep.get("api_calls").max(1)))
        .set("distinct_nontrivial", J::i(rep.get("models") + rep.get("deep_models")))
        .set("models", J::i(rep.get("models") + rep.get("deep_models")))
        .set("deep_models_table_level_only", J::i(rep.get("deep_models")))
        .set("rule", J::s(rule))
        .set("nontrivial_rule", J::s("a model (pattern list x match kind x folding) counts once; full models build 30 low-level + 18 top-level real searchers, deep (table-level) models build a noncontiguous NFA and a contiguous NFA and DFA from it"))
        .set("match_states_reached", J::i(rep.get("match_states_reached")))
        .set("dead_reached", J::i(rep.get("dead_reached")))
        .set("exhaustive", J::Bool(true))
        .set("bounds", J::s(format!(
            "haystack length unbounded for the table exploration (closed reachable product, cap {} states/model never hit); API replays: layer-2 haystacks up to {} bytes ({} strings budget per model), every span for length <= {}; pattern-list universes per DESIGN.md 2.3 ({})",
            crate::e1::STATE_CAP, o.layer2_cap, o.layer2_budget, o.span_len, if t { "U2+Uedge+Uadv, deep: Tuples+Subs thorough sets" } else { "U1+Uedge+Uadv, deep: Tuples+Subs quick sets" }
        )))
        .set("design_ref", J::s(design));
    if (states == 0 || transitions == 0) && rep.nviol() == 0 {
        rep.machinery("vacuous run: no state explored".into());
    }
    rep.finish("model_checking", cov, &assumptions)
}
