//! Engine E4 `apimc`: complete enumeration of configuration x API products
//! (C13 rejection table, C20 builder product) and of the replace routines
//! with every closure answer sequence (C12). See DESIGN.md section 5.

use crate::json::{self, J};
use crate::report::{par_for_desc, pats_j, pats_show, Report, Stats, Violation};
use crate::spec::{Kind, Spec, M};
use crate::universe::{self, Pats};
use aho_corasick::automaton::{Automaton, OverlappingState};
use aho_corasick::{AhoCorasick, AhoCorasickKind, Anchored, Input, StartKind};
use std::panic::{catch_unwind, AssertUnwindSafe};

fn b(s: &str) -> Vec<u8> {
    s.as_bytes().to_vec()
}

const KINDS4: [Option<AhoCorasickKind>; 4] =
    [None, Some(AhoCorasickKind::NoncontiguousNFA), Some(AhoCorasickKind::ContiguousNFA), Some(AhoCorasickKind::DFA)];
const SKS: [StartKind; 3] = [StartKind::Unanchored, StartKind::Anchored, StartKind::Both];

fn kname(k: Option<AhoCorasickKind>) -> &'static str {
    match k {
        None => "auto",
        Some(AhoCorasickKind::NoncontiguousNFA) => "nnfa",
        Some(AhoCorasickKind::ContiguousNFA) => "cnfa",
        Some(AhoCorasickKind::DFA) => "dfa",
        _ => "?",
    }
}
fn kfrom(s: &str) -> Option<AhoCorasickKind> {
    match s {
        "nnfa" => Some(AhoCorasickKind::NoncontiguousNFA),
        "cnfa" => Some(AhoCorasickKind::ContiguousNFA),
        "dfa" => Some(AhoCorasickKind::DFA),
        _ => None,
    }
}
fn skname(s: StartKind) -> &'static str {
    match s {
        StartKind::Unanchored => "unanchored",
        StartKind::Anchored => "anchored",
        StartKind::Both => "both",
    }
}
fn skfrom(s: &str) -> StartKind {
    match s {
        "unanchored" => StartKind::Unanchored,
        "anchored" => StartKind::Anchored,
        _ => StartKind::Both,
    }
}

// ------------------------------------------------------------------ C13

#[derive(Clone, Copy, PartialEq, Eq, Debug)]
enum Cls {
    Ok,
    Err,
    Panic,
}

struct ApiDef {
    name: &'static str,
    fallible: bool,
    takes_input: bool,
    overlapping: bool,
    overlapping_iter: bool,
    stream: bool,
}

const APIS: &[ApiDef] = &[
    ApiDef { name: "is_match", fallible: false, takes_input: true, overlapping: false, overlapping_iter: false, stream: false },
    ApiDef { name: "find", fallible: false, takes_input: true, overlapping: false, overlapping_iter: false, stream: false },
    ApiDef { name: "try_find", fallible: true, takes_input: true, overlapping: false, overlapping_iter: false, stream: false },
    ApiDef { name: "find_overlapping", fallible: false, takes_input: true, overlapping: true, overlapping_iter: false, stream: false },
    ApiDef { name: "try_find_overlapping", fallible: true, takes_input: true, overlapping: true, overlapping_iter: false, stream: false },
    // the same two calls on an OverlappingState that an earlier step (in the
    // OTHER anchoring mode, where that is supported) has already advanced:
    // rejection must not depend on what the state went through
    ApiDef { name: "find_overlapping(used state)", fallible: false, takes_input: true, overlapping: true, overlapping_iter: false, stream: false },
    ApiDef { name: "try_find_overlapping(used state)", fallible: true, takes_input: true, overlapping: true, overlapping_iter: false, stream: false },
    ApiDef { name: "find_iter", fallible: false, takes_input: true, overlapping: false, overlapping_iter: false, stream: false },
    ApiDef { name: "try_find_iter", fallible: true, takes_input: true, overlapping: false, overlapping_iter: false, stream: false },
    ApiDef { name: "find_overlapping_iter", fallible: false, takes_input: true, overlapping: true, overlapping_iter: true, stream: false },
    ApiDef { name: "try_find_overlapping_iter", fallible: true, takes_input: true, overlapping: true, overlapping_iter: true, stream: false },
    ApiDef { name: "replace_all", fallible: false, takes_input: false, overlapping: false, overlapping_iter: false, stream: false },
    ApiDef { name: "replace_all_bytes", fallible: false, takes_input: false, overlapping: false, overlapping_iter: false, stream: false },
    ApiDef { name: "replace_all_with", fallible: false, takes_input: false, overlapping: false, overlapping_iter: false, stream: false },
    ApiDef { name: "replace_all_with_bytes", fallible: false, takes_input: false, overlapping: false, overlapping_iter: false, stream: false },
    ApiDef { name: "try_replace_all", fallible: true, takes_input: false, overlapping: false, overlapping_iter: false, stream: false },
    ApiDef { name: "try_replace_all_bytes", fallible: true, takes_input: false, overlapping: false, overlapping_iter: false, stream: false },
    ApiDef { name: "try_replace_all_with", fallible: true, takes_input: false, overlapping: false, overlapping_iter: false, stream: false },
    ApiDef { name: "try_replace_all_with_bytes", fallible: true, takes_input: false, overlapping: false, overlapping_iter: false, stream: false },
    ApiDef { name: "stream_find_iter", fallible: false, takes_input: false, overlapping: false, overlapping_iter: false, stream: true },
    ApiDef { name: "try_stream_find_iter", fallible: true, takes_input: false, overlapping: false, overlapping_iter: false, stream: true },
    ApiDef { name: "try_stream_replace_all", fallible: true, takes_input: false, overlapping: false, overlapping_iter: false, stream: true },
    ApiDef { name: "try_stream_replace_all_with", fallible: true, takes_input: false, overlapping: false, overlapping_iter: false, stream: true },
];

/// Input shapes: 0 = whole haystack, 1 = empty span in the middle, 2 = start
/// one past the end ("done" input), 3 = proper sub-span.
fn shape_span(hay: &str, shape: usize) -> (usize, usize) {
    let n = hay.len();
    match shape {
        1 => (n / 2, n / 2),
        2 => (n / 2 + 1, n / 2),
        3 => (n.min(1), n - n.min(1).min(n.saturating_sub(1))),
        _ => (0, n),
    }
}

fn call_api(ac: &AhoCorasick, name: &str, hay: &str, anc: Anchored, npats: usize) -> Cls {
    call_api_shape(ac, name, hay, anc, npats, 0)
}

fn call_api_shape(ac: &AhoCorasick, name: &str, hay: &str, anc: Anchored, npats: usize, shape: usize) -> Cls {
    let (ss, se) = shape_span(hay, shape);
    let inp = || Input::new(hay).span(ss..se).anchored(anc);
    let rep: Vec<&str> = (0..npats).map(|_| "Z").collect();
    let cap = 8 * hay.len() + 64;
    let r: Result<Result<(), ()>, _> = catch_unwind(AssertUnwindSafe(|| match name {
        "is_match" => {
            ac.is_match(inp());
            Ok(())
        }
        "find" => {
            ac.find(inp());
            Ok(())
        }
        "try_find" => ac.try_find(inp()).map(|_| ()).map_err(|_| ()),
        "find_overlapping" => {
            let mut st = OverlappingState::start();
            for _ in 0..cap {
                ac.find_overlapping(inp(), &mut st);
                if st.get_match().is_none() {
                    break;
                }
            }
            Ok(())
        }
        "try_find_overlapping" => {
            let mut st = OverlappingState::start();
            let first = ac.try_find_overlapping(inp(), &mut st).map_err(|_| ());
            if first.is_ok() {
                // once the first call succeeds, later calls with the same
                // input must succeed too
                for _ in 0..cap {
                    if st.get_match().is_none() {
                        break;
                    }
                    ac.try_find_overlapping(inp(), &mut st).expect("later overlapping call failed");
                }
            }
            first
        }
        "find_overlapping(used state)" | "try_find_overlapping(used state)" => {
            let other = if anc.is_anchored() { Anchored::No } else { Anchored::Yes };
            let mut st = OverlappingState::start();
            // warm-up in the other mode, on the whole haystack and on every
            // suffix until a step leaves a match in the state (errors and
            // panics of the warm-up are not the subject here)
            let _ = catch_unwind(AssertUnwindSafe(|| {
                for s0 in 0..=hay.len() {
                    let mut w = OverlappingState::start();
                    if ac.try_find_overlapping(Input::new(hay).span(s0..hay.len()).anchored(other), &mut w).is_ok() && w.get_match().is_some() {
                        st = w;
                        break;
                    }
                }
            }));
            if name.starts_with("try_") {
                ac.try_find_overlapping(inp(), &mut st).map_err(|_| ())
            } else {
                ac.find_overlapping(inp(), &mut st);
                Ok(())
            }
        }
        "find_iter" => {
            ac.find_iter(inp()).take(cap).count();
            Ok(())
        }
        "try_find_iter" => ac.try_find_iter(inp()).map(|it| {
            it.take(cap).count();
        }).map_err(|_| ()),
        "find_overlapping_iter" => {
            ac.find_overlapping_iter(inp()).take(cap).count();
            Ok(())
        }
        "try_find_overlapping_iter" => ac.try_find_overlapping_iter(inp()).map(|it| {
            it.take(cap).count();
        }).map_err(|_| ()),
        "replace_all" => {
            ac.replace_all(hay, &rep);
            Ok(())
        }
        "replace_all_bytes" => {
            ac.replace_all_bytes(hay.as_bytes(), &rep);
            Ok(())
        }
        "replace_all_with" => {
            let mut d = String::new();
            ac.replace_all_with(hay, &mut d, |_, _, _| true);
            Ok(())
        }
        "replace_all_with_bytes" => {
            let mut d = vec![];
            ac.replace_all_with_bytes(hay.as_bytes(), &mut d, |_, _, _| true);
            Ok(())
        }
        "try_replace_all" => ac.try_replace_all(hay, &rep).map(|_| ()).map_err(|_| ()),
        "try_replace_all_bytes" => ac.try_replace_all_bytes(hay.as_bytes(), &rep).map(|_| ()).map_err(|_| ()),
        "try_replace_all_with" => {
            let mut d = String::new();
            ac.try_replace_all_with(hay, &mut d, |_, _, _| true).map_err(|_| ())
        }
        "try_replace_all_with_bytes" => {
            let mut d = vec![];
            ac.try_replace_all_with_bytes(hay.as_bytes(), &mut d, |_, _, _| true).map_err(|_| ())
        }
        "stream_find_iter" => {
            for x in ac.stream_find_iter(hay.as_bytes()).take(cap) {
                x.expect("in-memory reader cannot fail");
            }
            Ok(())
        }
        "try_stream_find_iter" => ac.try_stream_find_iter(hay.as_bytes()).map(|it| {
            for x in it.take(cap) {
                x.expect("in-memory reader cannot fail");
            }
        }).map_err(|_| ()),
        "try_stream_replace_all" => {
            let mut o = vec![];
            ac.try_stream_replace_all(hay.as_bytes(), &mut o, &rep).map_err(|_| ())
        }
        "try_stream_replace_all_with" => {
            let mut o = vec![];
            ac.try_stream_replace_all_with(hay.as_bytes(), &mut o, |_, _, _| Ok(())).map_err(|_| ())
        }
        other => panic!("HARNESS unknown api {}", other),
    }));
    match r {
        Ok(Ok(())) => Cls::Ok,
        Ok(Err(())) => Cls::Err,
        Err(_) => Cls::Panic,
    }
}

fn shapes() -> Vec<(&'static str, Pats)> {
    vec![
        ("none", vec![]),
        ("nonempty", vec![b("ab"), b("b")]),
        ("nonempty", vec![b("a")]),
        ("nonempty", vec![b("xabab"), b("abd"), b("x"), b("bab"), b("q")]),
        ("nonempty", (0..101u32).map(|i| format!("k{}", i).into_bytes()).collect()),
        ("withempty", vec![b("ab"), b("")]),
        ("withempty", vec![b("")]),
        ("withempty", vec![b(""), b("a"), b("b")]),
    ]
}

fn haystacks13() -> Vec<String> {
    vec![
        String::new(),
        "xabab".to_string(),
        format!("{}xabab{}k7{}", "-".repeat(37), "-".repeat(20), "-".repeat(9)),
    ]
}

fn expected(mk: Kind, sk: StartKind, anc: Anchored, shape: &str, api: &ApiDef) -> bool {
    // returns "rejected"
    let anc = if api.takes_input { anc } else { Anchored::No };
    let covered = match (sk, anc) {
        (StartKind::Both, _) => true,
        (StartKind::Unanchored, Anchored::No) => true,
        (StartKind::Anchored, Anchored::Yes) => true,
        _ => false,
    };
    let std = mk == Kind::Std;
    let a = !covered;
    let bb = (api.overlapping || api.stream) && !std;
    let c = api.overlapping_iter && anc.is_anchored();
    let d = api.stream && shape == "withempty";
    a || bb || c || d
}

pub fn run_c13(rep: &Report) -> i32 {
    let shapes = shapes();
    let hays = haystacks13();
    struct W {
        mk: Kind,
        sk: StartKind,
        kind: Option<AhoCorasickKind>,
        shape: usize,
        pre: bool,
    }
    let mut items = vec![];
    for mk in Kind::ALL {
        for sk in SKS {
            for kind in KINDS4 {
                for shape in 0..shapes.len() {
                    for pre in [true, false] {
                        items.push(W { mk, sk, kind, shape, pre });
                    }
                }
            }
        }
    }
    let desc = |i: usize| format!("{} {} {} shape {}", items[i].mk.name(), skname(items[i].sk), kname(items[i].kind), items[i].shape);
    par_for_desc(rep, items.len(), &desc, |ix, st| {
        let w = &items[ix];
        let (sname, pats) = &shapes[w.shape];
        let ac = match catch_unwind(AssertUnwindSafe(|| AhoCorasick::builder().match_kind(w.mk.ac()).start_kind(w.sk).kind(w.kind).prefilter(w.pre).build(pats))) {
            Ok(Ok(a)) => a,
            other => {
                rep.violation(Violation {
                    property: rep.property.clone(),
                    what: "build-failed".into(),
                    case: c13_case(w.mk, w.sk, w.kind, pats, w.pre, "build", "", Anchored::No),
                    detail: format!("build failed: {:?}", other.map(|r| r.map(|_| ()).map_err(|e| e.to_string())).map_err(|p| crate::aut::panic_msg(&p))),
                    tags: vec![],
                });
                return;
            }
        };
        st.add("searchers", 1);
        for anc in [Anchored::No, Anchored::Yes] {
            for api in APIS {
                if !api.takes_input && anc.is_anchored() {
                    continue;
                }
                let reject = expected(w.mk, w.sk, anc, sname, api);
                let exp = if !reject {
                    Cls::Ok
                } else if api.fallible {
                    Cls::Err
                } else {
                    Cls::Panic
                };
                for hay in &hays {
                  for shape in 0..4usize {
                    if shape > 0 && !api.takes_input {
                        continue;
                    }
                    let got = call_api_shape(&ac, api.name, hay, anc, pats.len(), shape);
                    st.add("calls", 1);
                    if reject {
                        st.add("calls_expected_rejected", 1);
                    }
                    if got != exp {
                        rep.violation(Violation {
                            property: rep.property.clone(),
                            what: format!("rejection-{}", api.name),
                            case: c13_case(w.mk, w.sk, w.kind, pats, w.pre, api.name, hay, anc).set("shape", J::i(shape as i64)),
                            detail: format!(
                                "{} start_kind={} kind={} prefilter={} patterns {} ({}): {}(anchored={}) on \"{}\" span {:?}: expected {:?} by the four-rule table, got {:?}",
                                w.mk.name(), skname(w.sk), kname(w.kind), w.pre, pats_show(pats), sname, api.name, anc.is_anchored(), json::show(hay.as_bytes()), shape_span(hay, shape), exp, got
                            ),
                            tags: vec![("api".into(), api.name.into()), ("kind".into(), w.mk.name().into()), ("start_kind".into(), skname(w.sk).into()), ("automaton".into(), kname(w.kind).into()), ("anchored".into(), anc.is_anchored().to_string())],
                        });
                    }
                  }
                }
            }
        }
        // low-level automaton types: same table (rules b, c, d; rule a by the
        // type's own start-state support)
        if w.kind.is_some() && w.pre {
            low_level_c13(rep, st, w.mk, w.sk, w.kind, sname, pats, &hays);
        }
        if rep.nsamples() < 3 && ix % 97 == 11 {
            rep.sample(
                J::obj()
                    .set("match_kind", J::s(w.mk.name()))
                    .set("start_kind", J::s(skname(w.sk)))
                    .set("automaton", J::s(kname(w.kind)))
                    .set("patterns", J::s(pats_show(pats)))
                    .set("apis", J::i(APIS.len() as i64))
                    .set("example", J::s("try_find_overlapping(anchored=No) -> Err iff match kind is not standard or start kind is Anchored")),
            );
        }
    });
    let ev = rep.get("calls");
    let cov = J::obj()
        .set("evaluations", J::i(ev.max(1)))
        .set("distinct_nontrivial", J::i(rep.get("calls_expected_rejected")))
        .set("rule", J::s("the complete product match kind (3) x start kind (3) x automaton kind (auto + 3) x pattern list (8 lists of 3 shapes: none / non-empty / contains the empty pattern) x prefilter (2) x requested anchoring (2) x every public search entry point (21) x 3 haystacks (empty, short, 70 bytes); outcome class Ok / Err / panic via catch_unwind must equal the four-rule table of the statement; a constructed iterator is drained and must not fail later; additionally the same table on the low-level automaton types. A call is non-trivial when the table says it must be rejected"))
        .set("exhaustive", J::Bool(true))
        .set("design_ref", J::s("5, 7 (C13)"));
    if ev == 0 && rep.nviol() == 0 {
        rep.machinery("vacuous run".into());
    }
    rep.finish("exploration", cov, &["the four rules (a)-(d) of the property statement are the oracle; error texts are not compared, only the class Ok/Err/panic"])
}

fn low_level_c13(rep: &Report, st: &mut Stats, mk: Kind, sk: StartKind, kind: Option<AhoCorasickKind>, sname: &str, pats: &Pats, hays: &[String]) {
    use aho_corasick::{dfa, nfa};
    fn run<A: Automaton>(a: &A, rep: &Report, st: &mut Stats, mk: Kind, supports: &dyn Fn(bool) -> bool, sname: &str, label: &str, pats: &Pats, hays: &[String]) {
        for anchored in [false, true] {
            let anc = if anchored { Anchored::Yes } else { Anchored::No };
            for hay in hays {
                let std = mk == Kind::Std;
                let covered = supports(anchored);
                let mut check = |api: &str, exp_reject: bool, got: Result<Result<(), ()>, Box<dyn std::any::Any + Send>>| {
                    st.add("calls", 1);
                    let g = match got {
                        Ok(Ok(())) => Cls::Ok,
                        Ok(Err(())) => Cls::Err,
                        Err(_) => Cls::Panic,
                    };
                    let exp = if exp_reject { Cls::Err } else { Cls::Ok };
                    if g != exp {
                        rep.violation(Violation {
                            property: rep.property.clone(),
                            what: format!("rejection-low-{}", api),
                            case: J::obj().set("engine", J::s("c13low")).set("patterns", pats_j(pats)).set("kind", J::s(mk.name())).set("type", J::s(label)).set("api", J::s(api)).set("haystack", J::s(json::hex(hay.as_bytes()))).set("anchored", J::Bool(anchored)),
                            detail: format!("low-level {} {} patterns {}: {}(anchored={}) on \"{}\": expected {:?}, got {:?}", label, mk.name(), pats_show(pats), api, anchored, json::show(hay.as_bytes()), exp, g),
                            tags: vec![("api".into(), api.into()), ("kind".into(), mk.name().into())],
                        });
                    }
                };
              // shapes 0 and 1 only: on an input that is already done (start =
              // end + 1) the low-level trait methods return "no match" before
              // looking at the configuration; the property speaks about the
              // top-level searcher, which rejects first (checked above for all
              // shapes), so that behaviour is not judged here.
              for shape in 0..2usize {
                let (ss, se) = shape_span(hay, shape);
                let inp = || Input::new(hay.as_str()).span(ss..se).anchored(anc);
                check("try_find", !covered, catch_unwind(AssertUnwindSafe(|| a.try_find(&inp()).map(|_| ()).map_err(|_| ()))));
                check("try_find_iter", !covered, catch_unwind(AssertUnwindSafe(|| a.try_find_iter(inp()).map(|it| { it.take(999).count(); }).map_err(|_| ()))));
                check("try_find_overlapping", !covered || !std, catch_unwind(AssertUnwindSafe(|| {
                    let mut s = OverlappingState::start();
                    a.try_find_overlapping(&inp(), &mut s).map_err(|_| ())
                })));
                check("try_find_overlapping_iter", !covered || !std || anchored, catch_unwind(AssertUnwindSafe(|| a.try_find_overlapping_iter(inp()).map(|it| { it.take(999).count(); }).map_err(|_| ()))));
                if !anchored && shape == 0 {
                    check("try_stream_find_iter", !covered || !std || sname == "withempty", catch_unwind(AssertUnwindSafe(|| a.try_stream_find_iter(hay.as_bytes()).map(|it| { it.take(999).count(); }).map_err(|_| ()))));
                }
              }
            }
        }
    }
    let nn = match nfa::noncontiguous::Builder::new().match_kind(mk.ac()).build(pats) {
        Ok(n) => n,
        Err(_) => return,
    };
    match kind {
        Some(AhoCorasickKind::NoncontiguousNFA) => run(&nn, rep, st, mk, &|_| true, sname, "noncontiguous::NFA", pats, hays),
        Some(AhoCorasickKind::ContiguousNFA) => {
            if let Ok(c) = nfa::contiguous::Builder::new().build_from_noncontiguous(&nn) {
                run(&c, rep, st, mk, &|_| true, sname, "contiguous::NFA", pats, hays)
            }
        }
        Some(AhoCorasickKind::DFA) => {
            if let Ok(d) = dfa::Builder::new().start_kind(sk).build_from_noncontiguous(&nn) {
                let sup = move |anchored: bool| match sk {
                    StartKind::Both => true,
                    StartKind::Unanchored => !anchored,
                    StartKind::Anchored => anchored,
                };
                run(&d, rep, st, mk, &sup, sname, "dfa::DFA", pats, hays)
            }
        }
        _ => {}
    }
}

fn c13_case(mk: Kind, sk: StartKind, kind: Option<AhoCorasickKind>, pats: &Pats, pre: bool, api: &str, hay: &str, anc: Anchored) -> J {
    J::obj()
        .set("engine", J::s("c13"))
        .set("kind", J::s(mk.name()))
        .set("start_kind", J::s(skname(sk)))
        .set("automaton", J::s(kname(kind)))
        .set("patterns", pats_j(pats))
        .set("patterns_shown", J::s(pats_show(pats)))
        .set("prefilter", J::Bool(pre))
        .set("api", J::s(api))
        .set("haystack", J::s(json::hex(hay.as_bytes())))
        .set("anchored", J::Bool(anc.is_anchored()))
}

pub fn replay_c13(case: &J) -> i32 {
    let mk = Kind::from_name(&case.str_of("kind"));
    let sk = skfrom(&case.str_of("start_kind"));
    let kind = kfrom(&case.str_of("automaton"));
    let pats = crate::report::pats_from_j(case.get("patterns").unwrap_or(&J::Null));
    let pre = case.bool_of("prefilter");
    let apiname = case.str_of("api");
    let hay = String::from_utf8_lossy(&json::unhex(&case.str_of("haystack"))).into_owned();
    let anc = if case.bool_of("anchored") { Anchored::Yes } else { Anchored::No };
    let shape = if pats.is_empty() { "none" } else if pats.iter().any(|p| p.is_empty()) { "withempty" } else { "nonempty" };
    println!("match_kind={} start_kind={} automaton={} prefilter={} patterns={} api={} anchored={} haystack=\"{}\"", mk.name(), skname(sk), kname(kind), pre, pats_show(&pats), apiname, anc.is_anchored(), json::show(hay.as_bytes()));
    let api = match APIS.iter().find(|a| a.name == apiname) {
        Some(a) => a,
        None => return 2,
    };
    let ac = match AhoCorasick::builder().match_kind(mk.ac()).start_kind(sk).kind(kind).prefilter(pre).build(&pats) {
        Ok(a) => a,
        Err(e) => {
            println!("build failed: {}", e);
            return 1;
        }
    };
    let reject = expected(mk, sk, anc, shape, api);
    let exp = if !reject { Cls::Ok } else if api.fallible { Cls::Err } else { Cls::Panic };
    let got = call_api_shape(&ac, api.name, &hay, anc, pats.len(), case.usize_of("shape"));
    println!("expected {:?} (rejected={}), observed {:?}", exp, reject, got);
    if got == exp {
        0
    } else {
        1
    }
}

// ------------------------------------------------------------------ C20

/// n prefix-free patterns with 20 distinct start bytes (pattern-count
/// thresholds of the packed prefilter: 64, 128; the builder must stay correct
/// beyond them)
fn nfam(n: usize) -> Pats {
    (0..n)
        .map(|i| {
            let mut p = vec![b'b' + (i % 20) as u8, [b'q', b'x', b'j', b'v', b'w'][i % 5], b'0' + ((i / 20) % 10) as u8, b'0' + (i % 10) as u8];
            p.extend(std::iter::repeat(b'z').take(i % 3));
            p
        })
        .collect()
}

fn c20_families(thorough: bool) -> Vec<(String, Pats, bool)> {
    // (name, patterns, full option product?)
    let mut v: Vec<(String, Pats, bool)> = vec![
        ("none".into(), vec![], true),
        ("empty-only".into(), vec![vec![]], true),
        ("empty-twice".into(), vec![vec![], vec![]], true),
        ("one".into(), vec![b("abc")], true),
        ("one-byte".into(), vec![b("a")], true),
        ("two".into(), vec![b("ab"), b("b")], true),
        ("prefixes".into(), vec![b("a"), b("ab"), b("abc"), b("abcd")], true),
        ("prefixes-rev".into(), vec![b("abcd"), b("abc"), b("ab"), b("a")], true),
        ("suffixes".into(), vec![b("abcd"), b("bcd"), b("cd"), b("d")], true),
        ("dups".into(), vec![b("ab"), b("ab"), vec![], vec![], b("abc")], true),
        ("dups-3".into(), vec![b("x"), b("x"), b("x")], true),
        ("case".into(), vec![b("ab"), b("AB"), b("aB"), b("Ab")], true),
        ("boundary-bytes".into(), vec![b("@"), b("["), b("`"), b("{"), b("A"), b("z")], true),
        ("nonascii".into(), vec![vec![0xC3, 0xA9], vec![0xFF], vec![0x80, 0x00], vec![0x00]], true),
        ("all256".into(), (0..=255u8).map(|x| vec![x]).collect(), true),
        ("all256-pairs".into(), (0..=255u8).map(|x| vec![x, x.wrapping_add(1)]).collect(), true),
        ("fan126".into(), (0..126u8).map(|x| vec![b'x', x]).collect(), true),
        ("fan127".into(), (0..127u8).map(|x| vec![b'x', x]).collect(), true),
        ("fan128".into(), (0..128u8).map(|x| vec![b'x', x]).collect(), true),
        ("fan130".into(), (0..130u8).map(|x| vec![b'x', x]).collect(), true),
        ("fan256".into(), (0..=255u8).map(|x| vec![b'x', x]).collect(), true),
        ("long300".into(), vec![vec![b'q'; 300], vec![b'r'; 256], vec![b's'; 255]], true),
        ("long-mixed".into(), vec![(0..300).map(|i| b'a' + (i % 7) as u8).collect(), b("ab")], true),
        ("n100".into(), (0..100u32).map(|i| format!("k{}", i).into_bytes()).collect(), true),
        ("n101".into(), (0..101u32).map(|i| format!("k{}", i).into_bytes()).collect(), true),
        ("deep".into(), vec![b("abcdefghijklmnop"), b("bcdefghijklmnop"), b("cdefghijklmnop")], true),
        ("a^k".into(), (1..=12).map(|k| vec![b'a'; k]).collect(), true),
        ("a^kb".into(), (1..=12).map(|k| { let mut p = vec![b'a'; k]; p.push(b'b'); p }).collect(), true),
        ("n300".into(), (0..300u32).map(|i| format!("p{}x{}", i, i % 7).into_bytes()).collect(), true),
        ("binary-tree".into(), universe::strings(b"ab", 5).into_iter().filter(|s| !s.is_empty()).collect(), true),
        ("shadowed-prefix-packed".into(), vec![b("sam"), b("samwise"), b("frodo"), b("gandalf"), b("pippin")], true),
        ("shadowed-prefix-packed-2".into(), vec![b("ab"), b("abc"), b("cd"), b("ef"), b("gh"), b("abd"), b("cde")], true),
        ("shadowed-prefix-middle".into(), vec![b("frodo"), b("sam"), b("samwise"), b("sa"), b("gandalf"), b("pippin"), b("gand")], true),
        ("shadowed-dups".into(), vec![b("foo"), b("bar"), b("foo"), b("quux"), b("foobar"), b("zap")], true),
        ("rare-byte-ids".into(), vec![b("ez"), b(" z"), b("tz"), b("ezz")], true),
        ("n128-prefixfree".into(), nfam(128), true),
        ("n129-prefixfree".into(), nfam(129), true),
        ("n130-prefixfree".into(), nfam(130), true),
        ("n140-prefixfree".into(), nfam(140), true),
        ("n193-prefixfree".into(), nfam(193), true),
        ("n194-prefixfree".into(), nfam(194), true),
        ("n64-prefixfree".into(), nfam(64), true),
        ("n65-prefixfree".into(), nfam(65), true),
        ("n1000".into(), (0..1000u32).map(|i| format!("p{}x{}", i, i % 7).into_bytes()).collect(), false),
    ];
    // 17 / 20 / 32 / 33 patterns whose shortest has ONE byte (Teddy declines
    // them: the packed searcher has to decline too or fall back consistently)
    for n in [16usize, 17, 20, 32, 33] {
        let mut p: Pats = vec![b("q")];
        p.extend((1..n).map(|i| vec![b'A' + (i % 26) as u8, b'a' + (i / 26) as u8, b'0' + (i % 10) as u8]));
        v.push((format!("n{}-minlen1", n), p, true));
    }
    // more than 8 / 16 patterns whose shortest has >= 5 bytes (packed searcher:
    // more patterns than buckets, fingerprints capped at 4 bytes)
    v.push(("nine-words-minlen5".into(), ["alpha", "bravo", "charlie", "delta1", "echo22", "foxtrot", "golf333", "hotel", "india"].iter().map(|w| w.as_bytes().to_vec()).collect(), true));
    v.push(("seventeen-words-minlen6".into(), (0..17).map(|i| format!("{}word{:02}", (b'a' + i as u8) as char, i).into_bytes()).collect(), true));
    // 1 500 pseudo-random byte patterns: thousands of dense rows of 256 classes
    v.push(("rand-bytes-1500".into(), crate::e3::random_byte_patterns(1500), false));
    // a pattern of 2^16 bytes next to its own 8-byte prefix (16-bit length fields)
    for (name, pats) in crate::e3::huge_lists().into_iter().filter(|(n, _)| n.starts_with("huge65536")) {
        v.push((name, pats, false));
    }
    // pattern lengths around 256 (u8 offset table of the rare-byte
    // prefilter): alone, first, in the middle and last of a list
    for len in [254usize, 255, 256, 257, 258] {
        let mut p = vec![b'e'; len - 1];
        p.push(b'z');
        v.push((format!("len{}-single", len), vec![p.clone()], true));
        v.push((format!("len{}-middle", len), vec![b("foo"), p.clone(), b("quux")], true));
        v.push((format!("len{}-first", len), vec![p.clone(), b("tq")], len == 256));
        v.push((format!("len{}-last-after-rare", len), vec![b("ez"), b("tq"), b(" j"), p.clone()], len == 256));
    }
    if thorough {
        v.push(("n5000".into(), (0..5000u32).map(|i| format!("w{}q{}", i, i % 13).into_bytes()).collect(), false));
        v.push(("n2000-long".into(), (0..2000u32).map(|i| format!("{:0>40}", i).into_bytes()).collect(), false));
        v.push(("ternary-tree".into(), universe::strings(b"abc", 5).into_iter().filter(|s| !s.is_empty()).collect(), false));
    }
    v
}

#[derive(Clone, Copy)]
struct Opt {
    mk: Kind,
    kind: Option<AhoCorasickKind>,
    sk: StartKind,
    ci: bool,
    pre: bool,
    dd: usize,
    bc: bool,
}

fn opt_product(full: bool) -> Vec<Opt> {
    let mut v = vec![];
    for mk in Kind::ALL {
        for kind in KINDS4 {
            for sk in SKS {
                for ci in [false, true] {
                    if full {
                        for pre in [false, true] {
                            for dd in [0usize, 1, 3, 1_000_000] {
                                for bc in [true, false] {
                                    v.push(Opt { mk, kind, sk, ci, pre, dd, bc });
                                }
                            }
                        }
                    } else {
                        v.push(Opt { mk, kind, sk, ci, pre: true, dd: 2, bc: true });
                    }
                }
            }
        }
    }
    v
}

fn c20_case(name: &str, pats: &Pats, o: &Opt) -> J {
    let mut j = J::obj()
        .set("engine", J::s("c20"))
        .set("family", J::s(name))
        .set("kind", J::s(o.mk.name()))
        .set("automaton", J::s(kname(o.kind)))
        .set("start_kind", J::s(skname(o.sk)))
        .set("ci", J::Bool(o.ci))
        .set("prefilter", J::Bool(o.pre))
        .set("dense_depth", J::i(o.dd as i64))
        .set("byte_classes", J::Bool(o.bc))
        .set("patterns_shown", J::s(pats_show(pats)));
    if pats.len() <= 400 {
        j.put("patterns", pats_j(pats));
    }
    j
}

fn check_c20(name: &str, pats: &Pats, o: &Opt, st: &mut Stats) -> Result<(), String> {
    let built = catch_unwind(AssertUnwindSafe(|| {
        AhoCorasick::builder()
            .match_kind(o.mk.ac())
            .kind(o.kind)
            .start_kind(o.sk)
            .ascii_case_insensitive(o.ci)
            .prefilter(o.pre)
            .dense_depth(o.dd)
            .byte_classes(o.bc)
            .build(pats)
    }));
    st.add("builds", 1);
    let ac = match built {
        Err(p) => return Err(format!("build panicked: {}", crate::aut::panic_msg(&p))),
        Ok(Err(e)) => return Err(format!("build failed: {}", e)),
        Ok(Ok(ac)) => ac,
    };
    if let Some(k) = o.kind {
        if ac.kind() != k {
            return Err(format!("requested kind {:?}, got {:?}", k, ac.kind()));
        }
    }
    if ac.patterns_len() != pats.len() {
        return Err(format!("patterns_len {} != {}", ac.patterns_len(), pats.len()));
    }
    if !pats.is_empty() {
        let mn = pats.iter().map(|p| p.len()).min().unwrap();
        let mx = pats.iter().map(|p| p.len()).max().unwrap();
        if ac.min_pattern_len() != mn || ac.max_pattern_len() != mx {
            return Err(format!("min/max pattern len {}..{} != {}..{}", ac.min_pattern_len(), ac.max_pattern_len(), mn, mx));
        }
    }
    if ac.match_kind() != o.mk.ac() {
        return Err(format!("match_kind {:?} != {:?}", ac.match_kind(), o.mk.ac()));
    }
    if ac.start_kind() != o.sk {
        return Err(format!("start_kind {:?} != {:?}", ac.start_kind(), o.sk));
    }
    // search (some of) the patterns as haystacks: identifiers must be the
    // 0-based input positions, as SPEC defines
    let spec = Spec::new(pats.clone(), o.ci);
    let idx: Vec<usize> = if pats.len() <= 40 { (0..pats.len()).collect() } else { (0..16).chain((pats.len() / 2)..(pats.len() / 2 + 4)).chain(pats.len() - 8..pats.len()).collect() };
    let anchored = o.sk == StartKind::Anchored;
    let anc = if anchored { Anchored::Yes } else { Anchored::No };
    for &i in &idx {
        let h = &pats[i];
        if h.len() > 64 && pats.len() > 400 {
            continue;
        }
        let got = catch_unwind(AssertUnwindSafe(|| ac.try_find(Input::new(h).anchored(anc))));
        st.add("searches", 1);
        let exp = spec.find(o.mk, h, 0, h.len(), anchored);
        match got {
            Err(p) => return Err(format!("search of pattern {} panicked: {}", i, crate::aut::panic_msg(&p))),
            Ok(Err(e)) => return Err(format!("search of pattern {} failed: {}", i, e)),
            Ok(Ok(g)) => {
                let g = g.map(|m| (m.pattern().as_usize(), m.start(), m.end()));
                if g != exp {
                    return Err(format!("searching pattern {} (\"{}\") as haystack: got {:?}, SPEC {:?}", i, json::show(&h[..h.len().min(20)]), g, exp));
                }
            }
        }
        // the same pattern in the middle of a long haystack (vector / prefilter paths)
        if !anchored && h.len() <= 64 && pats.len() <= 400 {
            let fl = universe::bottom(pats);
            let mut long = vec![fl; 37];
            long.extend_from_slice(h);
            long.extend(std::iter::repeat(fl).take(21));
            let got = catch_unwind(AssertUnwindSafe(|| ac.try_find(Input::new(&long))));
            st.add("searches", 1);
            let exp = spec.find(o.mk, &long, 0, long.len(), false);
            match got {
                Ok(Ok(g)) => {
                    let g = g.map(|m| (m.pattern().as_usize(), m.start(), m.end()));
                    if g != exp {
                        return Err(format!("searching pattern {} (\"{}\") inside 37+21 filler bytes: got {:?}, SPEC {:?}", i, json::show(&h[..h.len().min(20)]), g, exp));
                    }
                }
                other => return Err(format!("search of embedded pattern {} failed: {:?}", i, other.map(|r| r.map(|_| ()).map_err(|e| e.to_string())).map_err(|p| crate::aut::panic_msg(&p)))),
            }
        }
        // all occurrences with identifiers (standard, unanchored): each pattern is found under its own id
        if o.mk == Kind::Std && !anchored && pats.len() <= 40 {
            let ov: Result<Vec<M>, String> = catch_unwind(AssertUnwindSafe(|| ac.try_find_overlapping_iter(Input::new(h)).map(|it| it.take(9999).map(|m| (m.pattern().as_usize(), m.start(), m.end())).collect()).map_err(|e| e.to_string()))).unwrap_or_else(|p| Err(crate::aut::panic_msg(&p)));
            let exp_ov = spec.overlapping(h, 0, h.len(), false);
            if ov.as_ref().ok() != Some(&exp_ov) {
                return Err(format!("overlapping search of pattern {} as haystack: got {:?}, SPEC {:?}", i, ov, exp_ov));
            }
        }
    }
    Ok(())
}

/// per-id pattern_len on the low-level types
fn check_c20_low(pats: &Pats, mk: Kind, ci: bool, st: &mut Stats) -> Result<(), String> {
    use aho_corasick::{dfa, nfa, PatternID};
    fn lens<A: Automaton>(a: &A, pats: &Pats, label: &str) -> Result<(), String> {
        if a.patterns_len() != pats.len() {
            return Err(format!("{}: patterns_len {} != {}", label, a.patterns_len(), pats.len()));
        }
        for (i, p) in pats.iter().enumerate() {
            let l = a.pattern_len(PatternID::new(i).map_err(|e| e.to_string())?);
            if l != p.len() {
                return Err(format!("{}: pattern_len({}) = {} != {}", label, i, l, p.len()));
            }
        }
        if !pats.is_empty() {
            let mn = pats.iter().map(|p| p.len()).min().unwrap();
            let mx = pats.iter().map(|p| p.len()).max().unwrap();
            if a.min_pattern_len() != mn || a.max_pattern_len() != mx {
                return Err(format!("{}: min/max {}..{} != {}..{}", label, a.min_pattern_len(), a.max_pattern_len(), mn, mx));
            }
        }
        if a.match_kind() != a.match_kind() {
            return Err("unreachable".into());
        }
        Ok(())
    }
    st.add("builds", 3);
    let r = catch_unwind(AssertUnwindSafe(|| -> Result<(), String> {
        let nn = nfa::noncontiguous::Builder::new().match_kind(mk.ac()).ascii_case_insensitive(ci).build(pats).map_err(|e| format!("nNFA build failed: {}", e))?;
        lens(&nn, pats, "noncontiguous::NFA")?;
        if nn.match_kind() != mk.ac() {
            return Err("noncontiguous::NFA match_kind mismatch".into());
        }
        let c = nfa::contiguous::Builder::new().build_from_noncontiguous(&nn).map_err(|e| format!("cNFA build failed: {}", e))?;
        lens(&c, pats, "contiguous::NFA")?;
        let d = dfa::Builder::new().build_from_noncontiguous(&nn).map_err(|e| format!("DFA build failed: {}", e))?;
        lens(&d, pats, "dfa::DFA")?;
        // the direct builders too
        let c2 = nfa::contiguous::Builder::new().match_kind(mk.ac()).ascii_case_insensitive(ci).build(pats).map_err(|e| format!("cNFA direct build failed: {}", e))?;
        lens(&c2, pats, "contiguous::NFA (direct)")?;
        let d2 = dfa::Builder::new().match_kind(mk.ac()).ascii_case_insensitive(ci).build(pats).map_err(|e| format!("DFA direct build failed: {}", e))?;
        lens(&d2, pats, "dfa::DFA (direct)")?;
        if c2.match_kind() != mk.ac() || d2.match_kind() != mk.ac() {
            return Err("direct builder match_kind mismatch".into());
        }
        Ok(())
    }));
    match r {
        Ok(x) => x,
        Err(p) => Err(format!("low-level build panicked: {}", crate::aut::panic_msg(&p))),
    }
}

pub fn run_c20(rep: &Report) -> i32 {
    let fams = c20_families(rep.thorough());
    let full = opt_product(true);
    let small = opt_product(false);
    // work items: (family, chunk of the option product)
    let mut items: Vec<(usize, usize, usize, bool)> = vec![];
    for (f, (_, pats, fullp)) in fams.iter().enumerate() {
        let prod = if *fullp { &full } else { &small };
        let chunk = if pats.len() > 200 { 8 } else { 96 };
        let mut i = 0;
        while i < prod.len() {
            items.push((f, i, (i + chunk).min(prod.len()), *fullp));
            i += chunk;
        }
    }
    let desc = |i: usize| format!("family {} options {}..{}", fams[items[i].0].0, items[i].1, items[i].2);
    par_for_desc(rep, items.len(), &desc, |ix, st| {
        let (f, lo, hi, fullp) = items[ix];
        let (name, pats, _) = &fams[f];
        let prod = if fullp { &full } else { &small };
        for o in &prod[lo..hi] {
            st.add("configurations", 1);
            if let Err(e) = check_c20(name, pats, o, st) {
                rep.violation(Violation {
                    property: rep.property.clone(),
                    what: "builder-product".into(),
                    case: c20_case(name, pats, o),
                    detail: format!(
                        "family {} ({} patterns) match_kind={} kind={} start_kind={} ci={} prefilter={} dense_depth={} byte_classes={}: {}",
                        name, pats.len(), o.mk.name(), kname(o.kind), skname(o.sk), o.ci, o.pre, o.dd, o.bc, e
                    ),
                    tags: vec![("family".into(), name.clone()), ("automaton".into(), kname(o.kind).into())],
                });
            }
        }
        if lo == 0 {
            for mk in Kind::ALL {
                for ci in [false, true] {
                    if let Err(e) = check_c20_low(pats, mk, ci, st) {
                        rep.violation(Violation {
                            property: rep.property.clone(),
                            what: "builder-low-level".into(),
                            case: c20_case(name, pats, &Opt { mk, kind: None, sk: StartKind::Unanchored, ci, pre: true, dd: 2, bc: true }).set("low", J::Bool(true)),
                            detail: format!("family {} ({} patterns) {} ci={}: {}", name, pats.len(), mk.name(), ci, e),
                            tags: vec![("family".into(), name.clone())],
                        });
                    }
                }
            }
            rep.set_add("families", format!("{}({})", name, pats.len()));
        }
    });
    rep.sample(J::obj().set("family", J::s("fan127")).set("patterns", J::s("\"x\\x00\" .. \"x\\x7e\" (127 children of one state)")).set("options", J::s("match_kind x kind(auto,nnfa,cnfa,dfa) x start_kind x ascii_case_insensitive x prefilter x dense_depth{0,1,3,1000000} x byte_classes = 1152 builds")));
    let ev = rep.get("configurations");
    let cov = J::obj()
        .set("evaluations", J::i(ev.max(1)))
        .set("distinct_nontrivial", J::i(rep.get("builds")))
        .set("rule", J::s("shape families (no patterns, only empty patterns, duplicates, all 256 byte values, 126/127/128/130/256 children of one state, 300-byte patterns, patterns of 254..258 bytes alone / first / middle / last, 64..194 prefix-free patterns, 100/101/300/1000 (thorough: 5000) patterns, deep suffix chains, a^k, binary tree, boundary and non-ASCII bytes) x the ENTIRE builder-option product (3 match kinds x 4 kinds x 3 start kinds x folding x prefilter x dense depth {0,1,3,10^6} x byte classes = 1152; families > 400 patterns: the 72 combinations of the first four options). Each build must succeed without panic; returned kind == requested kind; patterns_len, min/max pattern length, match_kind, start_kind mirror the input; per-id pattern_len on the three low-level types (also through their direct builders); searching patterns as haystacks returns SPEC's (pid, span) with pid the 0-based input position; standard: overlapping search lists every pattern under its own id. Every configuration is a distinct real build"))
        .set("families", J::Arr(rep.set_members("families").into_iter().map(J::s).collect()))
        .set("exhaustive", J::Bool(true))
        .set("design_ref", J::s("5, 7 (C20)"));
    if ev == 0 && rep.nviol() == 0 {
        rep.machinery("vacuous run".into());
    }
    rep.finish("exploration", cov, &["min/max pattern length of a zero-pattern searcher is outside the statement and not checked", "documented size limits are not approached (no build is expected to fail)"])
}

pub fn replay_c20(case: &J) -> i32 {
    let fams = c20_families(true);
    let name = case.str_of("family");
    let pats = match case.get("patterns") {
        Some(p) => crate::report::pats_from_j(p),
        None => match fams.iter().find(|f| f.0 == name) {
            Some(f) => f.1.clone(),
            None => return 2,
        },
    };
    let o = Opt {
        mk: Kind::from_name(&case.str_of("kind")),
        kind: kfrom(&case.str_of("automaton")),
        sk: skfrom(&case.str_of("start_kind")),
        ci: case.bool_of("ci"),
        pre: case.bool_of("prefilter"),
        dd: case.usize_of("dense_depth"),
        bc: case.bool_of("byte_classes"),
    };
    println!("family={} patterns={} {:?}", name, pats_show(&pats), case.to_string());
    let mut st = Stats::default();
    let r = if case.bool_of("low") { check_c20_low(&pats, o.mk, o.ci, &mut st) } else { check_c20(&name, &pats, &o, &mut st) };
    match r {
        Ok(()) => {
            println!("configuration builds and mirrors its input");
            0
        }
        Err(e) => {
            println!("{}", e);
            1
        }
    }
}

// ------------------------------------------------------------------ C12

fn c12_case(pats: &Pats, mk: Kind, kind: Option<AhoCorasickKind>, h: &str, routine: &str, k: usize) -> J {
    J::obj()
        .set("engine", J::s("c12"))
        .set("patterns", pats_j(pats))
        .set("patterns_shown", J::s(pats_show(pats)))
        .set("kind", J::s(mk.name()))
        .set("automaton", J::s(kname(kind)))
        .set("haystack", J::s(json::hex(h.as_bytes())))
        .set("haystack_shown", J::s(h))
        .set("routine", J::s(routine))
        .set("closure_false_at", J::i(k as i64))
}

fn reps_for(n: usize) -> Vec<String> {
    (0..n).map(|i| if i % 2 == 0 { format!("<{}>", i) } else { "é".repeat(i) }).collect()
}

/// All four replace routines x every closure answer sequence on one case.
/// Returns a description of the first discrepancy.
fn check_c12(ac: &AhoCorasick, pats: &Pats, h: &str, st: &mut Stats) -> Result<(), (String, usize, String)> {
    let hb = h.as_bytes();
    let reps = reps_for(pats.len());
    let ms: Vec<M> = match catch_unwind(AssertUnwindSafe(|| ac.find_iter(h).take(4 * hb.len() + 8).map(|m| (m.pattern().as_usize(), m.start(), m.end())).collect::<Vec<M>>())) {
        Ok(v) => v,
        Err(p) => return Err(("find_iter".into(), 0, format!("find_iter panicked: {}", crate::aut::panic_msg(&p)))),
    };
    if !ms.is_empty() {
        st.add("cases_with_match", 1);
    }
    let splice_b = |upto: usize| -> Vec<u8> {
        // matches 0..upto replaced, remainder verbatim
        let mut out = vec![];
        let mut last = 0;
        for &(p, a, e) in ms.iter().take(upto) {
            out.extend_from_slice(&hb[last..a]);
            out.extend_from_slice(reps[p].as_bytes());
            last = e;
        }
        out.extend_from_slice(&hb[last..]);
        out
    };
    let ok_ms: Vec<M> = ms.iter().copied().filter(|&(_, a, e)| h.is_char_boundary(a) && h.is_char_boundary(e)).collect();
    if ok_ms.len() != ms.len() {
        st.add("cases_with_split_char_match", 1);
    }
    let splice_s = |upto: usize| -> String {
        let mut out = String::new();
        let mut last = 0;
        for &(p, a, e) in ok_ms.iter().take(upto) {
            out.push_str(&h[last..a]);
            out.push_str(&reps[p]);
            last = e;
        }
        out.push_str(&h[last..]);
        out
    };
    st.add("replace_calls", 2);
    // table variants
    match catch_unwind(AssertUnwindSafe(|| ac.replace_all_bytes(hb, &reps))) {
        Err(p) => return Err(("replace_all_bytes".into(), usize::MAX, format!("panicked: {}", crate::aut::panic_msg(&p)))),
        Ok(got) => {
            let exp = splice_b(ms.len());
            if got != exp {
                return Err(("replace_all_bytes".into(), usize::MAX, format!("got \"{}\", splice over find_iter {:?} gives \"{}\"", json::show(&got), ms, json::show(&exp))));
            }
        }
    }
    match catch_unwind(AssertUnwindSafe(|| ac.replace_all(h, &reps))) {
        Err(p) => return Err(("replace_all".into(), usize::MAX, format!("panicked: {}", crate::aut::panic_msg(&p)))),
        Ok(got) => {
            let exp = splice_s(ok_ms.len());
            if got != exp || std::str::from_utf8(got.as_bytes()).is_err() {
                return Err(("replace_all".into(), usize::MAX, format!("got \"{}\", splice over boundary-aligned matches {:?} gives \"{}\"", got, ok_ms, exp)));
            }
        }
    }
    // closure variants: every answer sequence true^k false (k = 0..n) and all-true (k = n)
    for k in 0..=ms.len() {
        st.add("replace_calls", 1);
        let mut calls = 0usize;
        let mut seen: Vec<(M, Vec<u8>)> = vec![];
        let mut dst = b"PRE".to_vec();
        let r = catch_unwind(AssertUnwindSafe(|| {
            ac.replace_all_with_bytes(hb, &mut dst, |m, bytes, d| {
                seen.push(((m.pattern().as_usize(), m.start(), m.end()), bytes.to_vec()));
                d.extend_from_slice(reps[m.pattern().as_usize()].as_bytes());
                calls += 1;
                calls <= k
            })
        }));
        if let Err(p) = r {
            return Err(("replace_all_with_bytes".into(), k, format!("panicked: {}", crate::aut::panic_msg(&p))));
        }
        let upto = (k + 1).min(ms.len());
        let mut exp = b"PRE".to_vec();
        exp.extend_from_slice(&splice_b(upto));
        let seen_ok = seen.len() == upto && seen.iter().zip(&ms).all(|((m, bts), e)| m == e && &hb[m.1..m.2] == &bts[..]);
        if dst != exp || !seen_ok {
            return Err(("replace_all_with_bytes".into(), k, format!("closure returning false at call {}: got \"{}\" (closure saw {:?}), expected \"{}\" over {:?}", k, json::show(&dst), seen, json::show(&exp), ms)));
        }
    }
    for k in 0..=ok_ms.len() {
        st.add("replace_calls", 1);
        let mut calls = 0usize;
        let mut seen: Vec<(M, String)> = vec![];
        let mut dst = String::from("PRE");
        let r = catch_unwind(AssertUnwindSafe(|| {
            ac.replace_all_with(h, &mut dst, |m, s, d| {
                seen.push(((m.pattern().as_usize(), m.start(), m.end()), s.to_string()));
                d.push_str(&reps[m.pattern().as_usize()]);
                calls += 1;
                calls <= k
            })
        }));
        if let Err(p) = r {
            return Err(("replace_all_with".into(), k, format!("panicked: {}", crate::aut::panic_msg(&p))));
        }
        let upto = (k + 1).min(ok_ms.len());
        let exp = format!("PRE{}", splice_s(upto));
        let seen_ok = seen.len() == upto && seen.iter().zip(&ok_ms).all(|((m, s), e)| m == e && &h[m.1..m.2] == s.as_str());
        if dst != exp || !seen_ok {
            return Err(("replace_all_with".into(), k, format!("closure returning false at call {}: got \"{}\" (closure saw {:?}), expected \"{}\" over {:?}", k, dst, seen, exp, ok_ms)));
        }
    }
    Ok(())
}

pub fn run_c12(rep: &Report) -> i32 {
    let t = rep.thorough();
    let bytes: &[u8] = if t { &[b'a', b'b', 0xC3, 0xA9, 0xE2, 0x82, 0xAC] } else { &[b'a', 0xC3, 0xA9, 0xE2, 0xAC] };
    let pool = universe::strings(bytes, 2);
    let mut lists = universe::lists(&pool, 2);
    lists.push(vec![b("a"), b(""), "é".as_bytes().to_vec()]);
    lists.push(vec!["€".as_bytes().to_vec(), vec![0x82], b("")]);
    lists.push(vec![b("ab"), b("a"), b("b")]);
    let syms: &[&str] = if t { &["a", "b", "é", "€"] } else { &["a", "é", "€"] };
    let maxchars = if t { 5 } else { 4 };
    let mut hays: Vec<String> = vec![String::new()];
    let mut cur = vec![String::new()];
    for _ in 0..maxchars {
        let mut nx = vec![];
        for s in &cur {
            for y in syms {
                nx.push(format!("{}{}", s, y));
            }
        }
        hays.extend(nx.iter().cloned());
        cur = nx;
    }
    let kinds3 = [Some(AhoCorasickKind::NoncontiguousNFA), Some(AhoCorasickKind::ContiguousNFA), Some(AhoCorasickKind::DFA)];
    rep.count("pattern_lists", lists.len() as u64);
    rep.count("haystacks_per_list", hays.len() as u64);
    let desc = |i: usize| format!("patterns {}", pats_show(&lists[i]));
    par_for_desc(rep, lists.len(), &desc, |ix, st| {
        let pats = &lists[ix];
        for mk in Kind::ALL {
            for kind in kinds3 {
                let ac = match catch_unwind(AssertUnwindSafe(|| AhoCorasick::builder().match_kind(mk.ac()).kind(kind).build(pats))) {
                    Ok(Ok(a)) => a,
                    _ => {
                        rep.violation(Violation { property: rep.property.clone(), what: "build-failed".into(), case: c12_case(pats, mk, kind, "", "build", 0), detail: "build failed".into(), tags: vec![] });
                        continue;
                    }
                };
                for h in &hays {
                    st.add("cases", 1);
                    if let Err((routine, k, msg)) = check_c12(&ac, pats, h, st) {
                        rep.violation(Violation {
                            property: rep.property.clone(),
                            what: format!("replace-{}", routine),
                            case: c12_case(pats, mk, kind, h, &routine, k),
                            detail: format!("{} {} {} {} on \"{}\": {}", pats_show(pats), mk.name(), kname(kind), routine, h, msg),
                            tags: vec![("routine".into(), routine.clone()), ("kind".into(), mk.name().into())],
                        });
                    }
                }
            }
        }
        if rep.nsamples() < 3 && ix % 211 == 100 {
            rep.sample(J::obj().set("patterns", J::s(pats_show(pats))).set("haystacks", J::s(format!("every string of <= {} characters over {:?}", maxchars, syms))).set("routines", J::s("replace_all, replace_all_bytes, replace_all_with, replace_all_with_bytes x every closure answer sequence true^k false")));
        }
    });
    let ev = rep.get("replace_calls");
    let cov = J::obj()
        .set("evaluations", J::i(ev.max(1)))
        .set("distinct_nontrivial", J::i(rep.get("cases_with_match")))
        .set("rule", J::s("every ordered list of <= 2 byte patterns of length <= 2 over {a, (b,) 0xC3, 0xA9, 0xE2, (0x82,) 0xAC} (incl. the empty pattern and patterns that split é / €) x 3 match kinds x 3 automaton kinds x every valid UTF-8 haystack of <= 4 (thorough 5) characters over {a, (b,) é, €} x the four replace routines x EVERY closure answer sequence (false at call k for every k, and never). Oracle: splice over the same searcher's find_iter (str variants: matches off a char boundary skipped); closure sees exactly haystack[m.range()]; destination prefix preserved; no panic; valid UTF-8. A case is non-trivial when find_iter yields at least one match"))
        .set("cases_with_split_char_match", J::i(rep.get("cases_with_split_char_match")))
        .set("exhaustive", J::Bool(true))
        .set("design_ref", J::s("5, 7 (C12)"));
    if ev == 0 && rep.nviol() == 0 {
        rep.machinery("vacuous run".into());
    }
    rep.finish("exploration", cov, &["the oracle is the same searcher's find_iter (differential): defects of find_iter itself belong to C01/C02"])
}

pub fn replay_c12(case: &J) -> i32 {
    let pats = crate::report::pats_from_j(case.get("patterns").unwrap_or(&J::Null));
    let mk = Kind::from_name(&case.str_of("kind"));
    let kind = kfrom(&case.str_of("automaton"));
    let h = String::from_utf8_lossy(&json::unhex(&case.str_of("haystack"))).into_owned();
    println!("patterns={} kind={} automaton={} haystack=\"{}\"", pats_show(&pats), mk.name(), kname(kind), h);
    let ac = match AhoCorasick::builder().match_kind(mk.ac()).kind(kind).build(&pats) {
        Ok(a) => a,
        Err(e) => {
            println!("build failed: {}", e);
            return 1;
        }
    };
    let mut st = Stats::default();
    match check_c12(&ac, &pats, &h, &mut st) {
        Ok(()) => {
            println!("all replace routines agree with the splice over find_iter");
            0
        }
        Err((r, k, m)) => {
            println!("{} (closure false at {}): {}", r, k, m);
            1
        }
    }
}
