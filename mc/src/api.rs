//! Running the real public search APIs on concrete (haystack, span) cases and
//! comparing with SPEC or with another searcher. This is the conformance
//! layer that binds the explored tables to the crate's own search loops.

use crate::aut::{self, Cfg, Searcher};
use crate::json::{self, J};
use crate::report::{pats_j, pats_show, Report, Stats, Violation};
use crate::spec::{Kind, Spec, M};

#[derive(Clone, Copy, Debug, PartialEq, Eq, Hash, PartialOrd, Ord)]
pub enum Api {
    Find,
    Earliest,
    IsMatch,
    Iter,
    OvSteps,
    OvIter,
}

impl Api {
    pub fn name(self) -> &'static str {
        match self {
            Api::Find => "find",
            Api::Earliest => "find-earliest",
            Api::IsMatch => "is_match",
            Api::Iter => "find_iter",
            Api::OvSteps => "overlapping-stepwise",
            Api::OvIter => "overlapping-iter",
        }
    }
    pub fn from_name(s: &str) -> Api {
        match s {
            "find-earliest" => Api::Earliest,
            "is_match" => Api::IsMatch,
            "find_iter" => Api::Iter,
            "overlapping-stepwise" => Api::OvSteps,
            "overlapping-iter" => Api::OvIter,
            _ => Api::Find,
        }
    }
}

#[derive(Clone, Debug, PartialEq, Eq, Hash)]
pub enum Out {
    Opt(Option<M>),
    Bool(bool),
    List(Vec<M>),
    Fail(String),
}

impl Out {
    pub fn show(&self) -> String {
        match self {
            Out::Opt(o) => format!("{:?}", o),
            Out::Bool(b) => format!("{}", b),
            Out::List(l) => {
                if l.len() > 16 {
                    format!("{:?}...({} items)", &l[..16], l.len())
                } else {
                    format!("{:?}", l)
                }
            }
            Out::Fail(s) => s.clone(),
        }
    }
    /// Failure class only (ERR / PANIC), so that error texts do not matter.
    pub fn norm(self) -> Out {
        match self {
            Out::Fail(s) => Out::Fail(if s.starts_with("PANIC") { "PANIC".into() } else { "ERR".into() }),
            o => o,
        }
    }
}

pub fn run(sr: &Searcher, api: Api, h: &[u8], s: usize, e: usize, anchored: bool) -> Out {
    fn o<T>(r: aut::R<T>, f: impl FnOnce(T) -> Out) -> Out {
        match r {
            Ok(v) => f(v),
            Err(e) => Out::Fail(e),
        }
    }
    match api {
        Api::Find => o(sr.try_find(h, s, e, anchored, false), Out::Opt),
        Api::Earliest => o(sr.try_find(h, s, e, anchored, true), Out::Opt),
        Api::IsMatch => o(sr.is_match(h, s, e, anchored), Out::Bool),
        Api::Iter => o(sr.find_iter(h, s, e, anchored), Out::List),
        Api::OvSteps => o(sr.overlapping_steps(h, s, e, anchored, 3), Out::List),
        Api::OvIter => o(sr.overlapping_iter(h, s, e, anchored), Out::List),
    }
}

/// SPEC's answer for an API (for `Earliest` on leftmost kinds this is the
/// normal answer; the comparison is a predicate, see `agrees`).
pub fn spec_out(sp: &Spec, kind: Kind, api: Api, h: &[u8], s: usize, e: usize, anchored: bool) -> Out {
    match api {
        Api::Find | Api::Earliest => Out::Opt(sp.find(kind, h, s, e, anchored)),
        Api::IsMatch => Out::Bool(!sp.occ(h, s, e, anchored).is_empty()),
        Api::Iter => Out::List(sp.iter(kind, h, s, e, anchored)),
        Api::OvSteps | Api::OvIter => Out::List(sp.overlapping(h, s, e, anchored)),
    }
}

/// Does the observed outcome satisfy the property given SPEC's answer?
pub fn agrees(sp: &Spec, kind: Kind, api: Api, h: &[u8], s: usize, e: usize, anchored: bool, got: &Out, exp: &Out) -> bool {
    if api == Api::Earliest && kind.is_leftmost() {
        return match (got, exp) {
            (Out::Opt(None), Out::Opt(None)) => true,
            (Out::Opt(Some(g)), Out::Opt(Some(x))) => sp.is_occ(*g, h, s, e, anchored) && g.2 <= x.2,
            _ => false,
        };
    }
    got == exp
}

pub struct ModelCtx {
    pub name: String,
    pub pats: Vec<Vec<u8>>,
    pub kind: Kind,
    pub ci: bool,
    pub spec: Spec,
    pub searchers: Vec<(Cfg, Searcher)>,
}

impl ModelCtx {
    pub fn new(name: &str, pats: &[Vec<u8>], kind: Kind, ci: bool) -> ModelCtx {
        ModelCtx {
            name: name.to_string(),
            pats: pats.to_vec(),
            kind,
            ci,
            spec: Spec::new(pats.to_vec(), ci),
            searchers: vec![],
        }
    }
    /// Build the given configurations; a build failure or panic is returned
    /// as text (the caller decides whether it is a violation).
    pub fn build(&mut self, cfgs: &[Cfg]) -> Result<(), (Cfg, String)> {
        for &c in cfgs {
            match aut::build(&self.pats, self.kind, self.ci, c) {
                Ok(s) => self.searchers.push((c, s)),
                Err(e) => return Err((c, e)),
            }
        }
        Ok(())
    }
    pub fn case(&self, cfg: &Cfg, api: Api, h: &[u8], s: usize, e: usize, anchored: bool) -> J {
        J::obj()
            .set("engine", J::s("api"))
            .set("model", J::s(self.name.clone()))
            .set("patterns", pats_j(&self.pats))
            .set("patterns_shown", J::s(pats_show(&self.pats)))
            .set("kind", J::s(self.kind.name()))
            .set("ci", J::Bool(self.ci))
            .set("cfg", J::s(cfg.name()))
            .set("api", J::s(api.name()))
            .set("haystack", J::s(json::hex(h)))
            .set("haystack_shown", J::s(json::show(h)))
            .set("span", J::Arr(vec![J::i(s as i64), J::i(e as i64)]))
            .set("anchored", J::Bool(anchored))
    }
    pub fn tags(&self, cfg: &Cfg, api: Api, anchored: bool) -> Vec<(String, String)> {
        vec![
            ("kind".into(), self.kind.name().into()),
            ("ci".into(), self.ci.to_string()),
            ("cfg".into(), cfg.name()),
            ("api".into(), api.name().into()),
            ("anchored".into(), anchored.to_string()),
            ("has_empty_pattern".into(), self.pats.iter().any(|p| p.is_empty()).to_string()),
        ]
    }

    /// Run `apis` on every searcher that supports the anchoring mode and
    /// compare with SPEC. Returns the number of API calls made.
    pub fn check_spec(
        &self,
        rep: &Report,
        st: &mut Stats,
        apis: &[Api],
        h: &[u8],
        s: usize,
        e: usize,
        anchored: bool,
    ) {
        for &api in apis {
            let exp = spec_out(&self.spec, self.kind, api, h, s, e, anchored);
            for (cfg, sr) in &self.searchers {
                if !cfg.supports(anchored) {
                    continue;
                }
                if matches!(api, Api::OvSteps | Api::OvIter) && self.kind != Kind::Std {
                    continue;
                }
                if api == Api::OvIter && anchored {
                    continue;
                }
                let got = run(sr, api, h, s, e, anchored);
                st.add("api_calls", 1);
                if !agrees(&self.spec, self.kind, api, h, s, e, anchored, &got, &exp) {
                    rep.violation(Violation {
                        property: rep.property.clone(),
                        what: format!("{}-vs-spec", api.name()),
                        case: self.case(cfg, api, h, s, e, anchored),
                        detail: format!(
                            "{} {} ci={} {} {} on \"{}\"[{}..{}] anchored={}: got {}, SPEC {}",
                            pats_show(&self.pats), self.kind.name(), self.ci, cfg.name(), api.name(),
                            json::show(h), s, e, anchored, got.show(), exp.show()
                        ),
                        tags: self.tags(cfg, api, anchored),
                    });
                }
            }
        }
    }

    /// Differential: every searcher must agree with the first one that
    /// supports the anchoring mode. No SPEC involved.
    pub fn check_diff(&self, rep: &Report, st: &mut Stats, apis: &[Api], h: &[u8], s: usize, e: usize, anchored: bool) {
        for &api in apis {
            if matches!(api, Api::OvSteps | Api::OvIter) && self.kind != Kind::Std {
                continue;
            }
            if api == Api::OvIter && anchored {
                continue;
            }
            let mut base: Option<(&Cfg, Out)> = None;
            for (cfg, sr) in &self.searchers {
                if !cfg.supports(anchored) {
                    continue;
                }
                // earliest on leftmost kinds may legitimately differ between
                // representations only in *which* earlier occurrence is
                // returned?  No: all representations share one algorithm
                // definition (the first match state on the path), and C04
                // demands identical results, so it is compared exactly.
                let got = run(sr, api, h, s, e, anchored).norm();
                st.add("api_calls", 1);
                match &base {
                    None => base = Some((cfg, got)),
                    Some((bcfg, b)) => {
                        if &got != b {
                            rep.violation(Violation {
                                property: rep.property.clone(),
                                what: format!("{}-differs", api.name()),
                                case: self
                                    .case(cfg, api, h, s, e, anchored)
                                    .set("baseline_cfg", J::s(bcfg.name())),
                                detail: format!(
                                    "{} {} ci={} {} on \"{}\"[{}..{}] anchored={}: {} gives {}, {} gives {}",
                                    pats_show(&self.pats), self.kind.name(), self.ci, api.name(),
                                    json::show(h), s, e, anchored, bcfg.name(), b.show(), cfg.name(), got.show()
                                ),
                                tags: self.tags(cfg, api, anchored),
                            });
                        }
                    }
                }
            }
        }
    }
}

/// Enumerate the (haystack, span) cases of "layer 2": every haystack over the
/// alphabet up to `maxlen`; for haystacks up to `span_len` every span
/// 0 <= s <= e <= len and s = e + 1; longer ones whole.
pub fn layer2<F: FnMut(&[u8], usize, usize)>(alpha: &[u8], maxlen: usize, span_len: usize, mut f: F) {
    for h in crate::universe::strings(alpha, maxlen) {
        let n = h.len();
        f(&h, 0, n);
        if n <= span_len {
            for s in 0..=n {
                for e in s..=n {
                    if !(s == 0 && e == n) {
                        f(&h, s, e);
                    }
                }
                if s >= 1 {
                    f(&h, s, s - 1);
                }
            }
            if n + 1 >= 1 {
                // start one past the end of the haystack itself
                // (s = n + 1 > len is not a valid span; skip)
            }
        }
    }
}

/// Replay of an "api" case from a replay file.
pub fn replay(case: &J) -> i32 {
    let pats = crate::report::pats_from_j(case.get("patterns").unwrap_or(&J::Null));
    let kind = Kind::from_name(&case.str_of("kind"));
    let ci = case.bool_of("ci");
    let h = json::unhex(&case.str_of("haystack"));
    let span = case.get("span").and_then(|s| s.as_arr()).map(|a| (a[0].as_usize().unwrap_or(0), a[1].as_usize().unwrap_or(0))).unwrap_or((0, h.len()));
    let anchored = case.bool_of("anchored");
    let api = Api::from_name(&case.str_of("api"));
    let cfg = match Cfg::parse(&case.str_of("cfg")) {
        Some(c) => c,
        None => {
            println!("cannot parse cfg");
            return 2;
        }
    };
    let sp = Spec::new(pats.clone(), ci);
    println!("patterns={} kind={} ci={} cfg={} api={}", pats_show(&pats), kind.name(), ci, cfg.name(), api.name());
    println!("haystack=\"{}\" span={}..{} anchored={}", json::show(&h), span.0, span.1, anchored);
    let sr = match aut::build(&pats, kind, ci, cfg) {
        Ok(s) => s,
        Err(e) => {
            println!("build failed: {}", e);
            return 1;
        }
    };
    let got = run(&sr, api, &h, span.0, span.1, anchored);
    println!("observed: {}", got.show());
    let base = case.str_of("baseline_cfg");
    if !base.is_empty() {
        let bcfg = Cfg::parse(&base).unwrap();
        let bs = aut::build(&pats, kind, ci, bcfg).unwrap();
        let b = run(&bs, api, &h, span.0, span.1, anchored);
        println!("baseline {}: {}", base, b.show());
        return if b.norm() == got.norm() { 0 } else { 1 };
    }
    let exp = spec_out(&sp, kind, api, &h, span.0, span.1, anchored);
    println!("SPEC:     {}", exp.show());
    if agrees(&sp, kind, api, &h, span.0, span.1, anchored, &got, &exp) {
        0
    } else {
        1
    }
}
