//! A tiny JSON value type with a writer and a parser. The harness is
//! dependency-free on purpose (only a path dependency on /repo), so this is
//! hand-rolled. It supports exactly what evidence files, replay files and the
//! known-findings file need.

use std::collections::BTreeMap;
use std::fmt::Write;

#[derive(Clone, Debug, PartialEq)]
pub enum J {
    Null,
    Bool(bool),
    Int(i64),
    Num(f64),
    Str(String),
    Arr(Vec<J>),
    Obj(Vec<(String, J)>),
}

impl J {
    pub fn obj() -> J {
        J::Obj(vec![])
    }
    pub fn s(v: impl Into<String>) -> J {
        J::Str(v.into())
    }
    pub fn i(v: impl TryInto<i64>) -> J {
        J::Int(v.try_into().ok().unwrap_or(i64::MAX))
    }
    pub fn set(mut self, k: &str, v: J) -> J {
        if let J::Obj(ref mut o) = self {
            if let Some(e) = o.iter_mut().find(|e| e.0 == k) {
                e.1 = v;
            } else {
                o.push((k.to_string(), v));
            }
        }
        self
    }
    pub fn put(&mut self, k: &str, v: J) {
        if let J::Obj(ref mut o) = self {
            if let Some(e) = o.iter_mut().find(|e| e.0 == k) {
                e.1 = v;
            } else {
                o.push((k.to_string(), v));
            }
        }
    }
    pub fn get(&self, k: &str) -> Option<&J> {
        match self {
            J::Obj(o) => o.iter().find(|e| e.0 == k).map(|e| &e.1),
            _ => None,
        }
    }
    pub fn as_str(&self) -> Option<&str> {
        match self {
            J::Str(s) => Some(s),
            _ => None,
        }
    }
    pub fn as_i64(&self) -> Option<i64> {
        match self {
            J::Int(i) => Some(*i),
            J::Num(f) => Some(*f as i64),
            _ => None,
        }
    }
    pub fn as_usize(&self) -> Option<usize> {
        self.as_i64().and_then(|i| usize::try_from(i).ok())
    }
    pub fn as_bool(&self) -> Option<bool> {
        match self {
            J::Bool(b) => Some(*b),
            _ => None,
        }
    }
    pub fn as_arr(&self) -> Option<&[J]> {
        match self {
            J::Arr(a) => Some(a),
            _ => None,
        }
    }
    pub fn str_of(&self, k: &str) -> String {
        self.get(k).and_then(|v| v.as_str()).unwrap_or("").to_string()
    }
    pub fn usize_of(&self, k: &str) -> usize {
        self.get(k).and_then(|v| v.as_usize()).unwrap_or(0)
    }
    pub fn bool_of(&self, k: &str) -> bool {
        self.get(k).and_then(|v| v.as_bool()).unwrap_or(false)
    }

    pub fn to_string(&self) -> String {
        let mut s = String::new();
        self.write(&mut s, 0, false);
        s
    }
    pub fn to_pretty(&self) -> String {
        let mut s = String::new();
        self.write(&mut s, 0, true);
        s.push('\n');
        s
    }
    fn write(&self, out: &mut String, ind: usize, pretty: bool) {
        match self {
            J::Null => out.push_str("null"),
            J::Bool(b) => out.push_str(if *b { "true" } else { "false" }),
            J::Int(i) => {
                let _ = write!(out, "{}", i);
            }
            J::Num(f) => {
                if f.is_finite() {
                    let _ = write!(out, "{:.3}", f);
                } else {
                    out.push_str("0.0");
                }
            }
            J::Str(s) => write_str(out, s),
            J::Arr(a) => {
                out.push('[');
                // arrays of scalars stay on one line
                let scalar = a.iter().all(|x| !matches!(x, J::Arr(_) | J::Obj(_)));
                for (i, x) in a.iter().enumerate() {
                    if i > 0 {
                        out.push(',');
                    }
                    if pretty && !scalar {
                        out.push('\n');
                        out.push_str(&" ".repeat(ind + 1));
                    } else if i > 0 {
                        out.push(' ');
                    }
                    x.write(out, ind + 1, pretty && !scalar);
                }
                if pretty && !scalar && !a.is_empty() {
                    out.push('\n');
                    out.push_str(&" ".repeat(ind));
                }
                out.push(']');
            }
            J::Obj(o) => {
                out.push('{');
                for (i, (k, v)) in o.iter().enumerate() {
                    if i > 0 {
                        out.push(',');
                    }
                    if pretty {
                        out.push('\n');
                        out.push_str(&" ".repeat(ind + 1));
                    } else if i > 0 {
                        out.push(' ');
                    }
                    write_str(out, k);
                    out.push_str(": ");
                    v.write(out, ind + 1, pretty);
                }
                if pretty && !o.is_empty() {
                    out.push('\n');
                    out.push_str(&" ".repeat(ind));
                }
                out.push('}');
            }
        }
    }
}

fn write_str(out: &mut String, s: &str) {
    out.push('"');
    for c in s.chars() {
        match c {
            '"' => out.push_str("\\\""),
            '\\' => out.push_str("\\\\"),
            '\n' => out.push_str("\\n"),
            '\r' => out.push_str("\\r"),
            '\t' => out.push_str("\\t"),
            c if (c as u32) < 0x20 => {
                let _ = write!(out, "\\u{:04x}", c as u32);
            }
            c => out.push(c),
        }
    }
    out.push('"');
}

pub fn parse(src: &str) -> Result<J, String> {
    let b = src.as_bytes();
    let mut p = P { b, i: 0 };
    p.ws();
    let v = p.val()?;
    p.ws();
    if p.i != b.len() {
        return Err(format!("trailing data at byte {}", p.i));
    }
    Ok(v)
}

struct P<'a> {
    b: &'a [u8],
    i: usize,
}

impl<'a> P<'a> {
    fn ws(&mut self) {
        while self.i < self.b.len() && (self.b[self.i] as char).is_ascii_whitespace() {
            self.i += 1;
        }
    }
    fn val(&mut self) -> Result<J, String> {
        self.ws();
        if self.i >= self.b.len() {
            return Err("unexpected end".into());
        }
        match self.b[self.i] {
            b'{' => {
                self.i += 1;
                let mut o = vec![];
                self.ws();
                if self.peek() == Some(b'}') {
                    self.i += 1;
                    return Ok(J::Obj(o));
                }
                loop {
                    self.ws();
                    let k = match self.val()? {
                        J::Str(s) => s,
                        _ => return Err("object key must be a string".into()),
                    };
                    self.ws();
                    self.expect(b':')?;
                    let v = self.val()?;
                    o.push((k, v));
                    self.ws();
                    match self.peek() {
                        Some(b',') => self.i += 1,
                        Some(b'}') => {
                            self.i += 1;
                            return Ok(J::Obj(o));
                        }
                        _ => return Err(format!("expected , or }} at {}", self.i)),
                    }
                }
            }
            b'[' => {
                self.i += 1;
                let mut a = vec![];
                self.ws();
                if self.peek() == Some(b']') {
                    self.i += 1;
                    return Ok(J::Arr(a));
                }
                loop {
                    a.push(self.val()?);
                    self.ws();
                    match self.peek() {
                        Some(b',') => self.i += 1,
                        Some(b']') => {
                            self.i += 1;
                            return Ok(J::Arr(a));
                        }
                        _ => return Err(format!("expected , or ] at {}", self.i)),
                    }
                }
            }
            b'"' => {
                self.i += 1;
                let mut s = Vec::new();
                loop {
                    if self.i >= self.b.len() {
                        return Err("unterminated string".into());
                    }
                    let c = self.b[self.i];
                    self.i += 1;
                    match c {
                        b'"' => break,
                        b'\\' => {
                            let e = *self.b.get(self.i).ok_or("bad escape")?;
                            self.i += 1;
                            match e {
                                b'n' => s.push(b'\n'),
                                b'r' => s.push(b'\r'),
                                b't' => s.push(b'\t'),
                                b'b' => s.push(8),
                                b'f' => s.push(12),
                                b'u' => {
                                    let h = std::str::from_utf8(
                                        self.b.get(self.i..self.i + 4).ok_or("bad \\u")?,
                                    )
                                    .map_err(|e| e.to_string())?;
                                    let cp = u32::from_str_radix(h, 16).map_err(|e| e.to_string())?;
                                    self.i += 4;
                                    let ch = char::from_u32(cp).unwrap_or('\u{fffd}');
                                    let mut buf = [0u8; 4];
                                    s.extend_from_slice(ch.encode_utf8(&mut buf).as_bytes());
                                }
                                other => s.push(other),
                            }
                        }
                        c => s.push(c),
                    }
                }
                Ok(J::Str(String::from_utf8_lossy(&s).into_owned()))
            }
            b't' => self.lit("true", J::Bool(true)),
            b'f' => self.lit("false", J::Bool(false)),
            b'n' => self.lit("null", J::Null),
            _ => {
                let st = self.i;
                while self.i < self.b.len()
                    && matches!(self.b[self.i], b'-' | b'+' | b'.' | b'e' | b'E' | b'0'..=b'9')
                {
                    self.i += 1;
                }
                let t = std::str::from_utf8(&self.b[st..self.i]).unwrap();
                if let Ok(i) = t.parse::<i64>() {
                    Ok(J::Int(i))
                } else if let Ok(f) = t.parse::<f64>() {
                    Ok(J::Num(f))
                } else {
                    Err(format!("bad token at {}", st))
                }
            }
        }
    }
    fn peek(&self) -> Option<u8> {
        self.b.get(self.i).copied()
    }
    fn expect(&mut self, c: u8) -> Result<(), String> {
        if self.peek() == Some(c) {
            self.i += 1;
            Ok(())
        } else {
            Err(format!("expected {:?} at {}", c as char, self.i))
        }
    }
    fn lit(&mut self, t: &str, v: J) -> Result<J, String> {
        if self.b[self.i..].starts_with(t.as_bytes()) {
            self.i += t.len();
            Ok(v)
        } else {
            Err(format!("bad literal at {}", self.i))
        }
    }
}

pub fn hex(b: &[u8]) -> String {
    let mut s = String::with_capacity(b.len() * 2);
    for x in b {
        let _ = write!(s, "{:02x}", x);
    }
    s
}

pub fn unhex(s: &str) -> Vec<u8> {
    let b = s.as_bytes();
    (0..b.len() / 2)
        .map(|i| u8::from_str_radix(std::str::from_utf8(&b[2 * i..2 * i + 2]).unwrap_or("00"), 16).unwrap_or(0))
        .collect()
}

/// Printable rendering of bytes for humans (lossless: non-printables as \xNN).
pub fn show(b: &[u8]) -> String {
    let mut s = String::new();
    for &x in b {
        if (0x20..0x7f).contains(&x) && x != b'\\' && x != b'"' {
            s.push(x as char);
        } else {
            let _ = write!(s, "\\x{:02x}", x);
        }
    }
    s
}

#[allow(dead_code)]
pub fn map_to_j(m: &BTreeMap<String, u64>) -> J {
    J::Obj(m.iter().map(|(k, v)| (k.clone(), J::i(*v))).collect())
}
