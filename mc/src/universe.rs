//! Enumerated universes of pattern lists (the "alphabet" of models) and
//! haystack enumerations. Everything here is a complete enumeration of a
//! stated finite space, ordered simplest-first.

pub type Pats = Vec<Vec<u8>>;

/// All strings over `alpha` of length 0..=maxlen, shortest first.
pub fn strings(alpha: &[u8], maxlen: usize) -> Vec<Vec<u8>> {
    let mut all = vec![vec![]];
    let mut cur: Vec<Vec<u8>> = vec![vec![]];
    for _ in 0..maxlen {
        let mut nxt = Vec::with_capacity(cur.len() * alpha.len());
        for s in &cur {
            for &a in alpha {
                let mut t = s.clone();
                t.push(a);
                nxt.push(t);
            }
        }
        all.extend(nxt.iter().cloned());
        cur = nxt;
    }
    all
}

/// Number of strings of length 0..=maxlen over an alphabet of size k.
pub fn count_strings(k: usize, maxlen: usize) -> usize {
    let mut t = 0usize;
    let mut p = 1usize;
    for _ in 0..=maxlen {
        t = t.saturating_add(p);
        p = p.saturating_mul(k);
    }
    t
}

/// The largest `n <= cap` such that there are at most `budget` strings of
/// length 0..=n over an alphabet of size k.
pub fn len_for_budget(k: usize, budget: usize, cap: usize) -> usize {
    let mut n = 0;
    while n < cap && count_strings(k, n + 1) <= budget {
        n += 1;
    }
    n
}

/// All ordered lists of 1..=k elements of pool (duplicates allowed).
pub fn lists(pool: &[Vec<u8>], k: usize) -> Vec<Pats> {
    let mut out = vec![];
    let mut cur: Vec<Pats> = vec![vec![]];
    for _ in 0..k {
        let mut nxt = Vec::with_capacity(cur.len() * pool.len());
        for l in &cur {
            for p in pool {
                let mut t = l.clone();
                t.push(p.clone());
                nxt.push(t);
            }
        }
        out.extend(nxt.iter().cloned());
        cur = nxt;
    }
    out
}

fn dedup(mut v: Vec<Pats>) -> Vec<Pats> {
    let mut seen = std::collections::HashSet::new();
    v.retain(|l| seen.insert(l.clone()));
    v
}

/// U1: lists of 1..=3 patterns over {a,b}, lengths 0..=2 (399 lists).
pub fn u1() -> Vec<Pats> {
    lists(&strings(b"ab", 2), 3)
}

/// U0: lists of 1..=2 patterns over {a,b}, lengths 0..=2 (56 lists) - used
/// where a per-list cost is high.
pub fn u0() -> Vec<Pats> {
    lists(&strings(b"ab", 2), 2)
}

/// U2 (thorough): the union described in DESIGN.md section 2.3.
pub fn u2() -> Vec<Pats> {
    let mut v = vec![];
    v.extend(lists(&strings(b"ab", 3), 3));
    v.extend(lists(&strings(b"abc", 3), 2));
    v.extend(lists(&strings(b"abc", 2), 3));
    v.extend(lists(&strings(b"ab", 4), 2));
    dedup(v)
}

/// Uci: lists of 1..=2 patterns over a case/boundary alphabet, len 0..=2.
pub fn uci(thorough: bool) -> Vec<Pats> {
    let alpha: &[u8] = if thorough {
        &[b'a', b'A', b'b', b'@', b'`', b'[', b'{', 0xC1, 0xE1]
    } else {
        &[b'a', b'A', b'@', b'`', 0xE1]
    };
    lists(&strings(alpha, 2), 2)
}

/// Uedge: first/last byte class and the ASCII boundary.
pub fn uedge() -> Vec<Pats> {
    let mut v = lists(&strings(&[0x00, 0xFF], 2), 2);
    v.extend(lists(&strings(&[0x7F, 0x80], 2), 2));
    // the two lowest and the two highest byte values (class boundaries next
    // to the ends of the byte range)
    v.extend(lists(&strings(&[0x00, 0x01], 2), 2));
    v.extend(lists(&strings(&[0xFE, 0xFF], 2), 2));
    v
}

fn b(s: &str) -> Vec<u8> {
    s.as_bytes().to_vec()
}

/// Uadv: adversarial families (long failure chains, wide fan-out, many
/// patterns, nested suffixes beyond every dense depth, ...).
pub fn uadv(thorough: bool) -> Vec<(String, Pats)> {
    let mut v: Vec<(String, Pats)> = vec![];
    // a^k b
    for k in [1usize, 2, 3, 5, 8, 12] {
        let mut p = vec![b'a'; k];
        p.push(b'b');
        v.push((format!("a^{}b", k), vec![p.clone()]));
        v.push((format!("a^{}b+a^{}", k, k), vec![p, vec![b'a'; k]]));
    }
    // all suffixes / prefixes / substrings of a word, some rotations of order
    let word = b"abcabd";
    let suffixes: Pats = (0..word.len()).map(|i| word[i..].to_vec()).collect();
    let prefixes: Pats = (1..=word.len()).map(|i| word[..i].to_vec()).collect();
    for r in 0..suffixes.len() {
        let mut s = suffixes.clone();
        s.rotate_left(r);
        v.push((format!("suffixes-rot{}", r), s));
        if thorough || r < 2 {
            let mut p = prefixes.clone();
            p.rotate_left(r);
            v.push((format!("prefixes-rot{}", r), p));
        }
    }
    let mut subs: Pats = vec![];
    for i in 0..word.len() {
        for j in i + 1..=word.len() {
            subs.push(word[i..j].to_vec());
        }
    }
    v.push(("substrings".into(), subs.clone()));
    subs.reverse();
    v.push(("substrings-rev".into(), subs));
    // nested suffix chain of depth 9 (deeper than every dense depth)
    let deep = b"abcdefghi";
    v.push(("suffix-chain-9".into(), (0..deep.len()).map(|i| deep[i..].to_vec()).collect()));
    v.push((
        "suffix-chain-9-rev".into(),
        (0..deep.len()).rev().map(|i| deep[i..].to_vec()).collect(),
    ));
    // fan-out of one state: around the 127 sparse limit, and all 256 bytes
    // (a contiguous-NFA sparse state stores its transition count in one byte
    // next to the sentinels 0xFE / 0xFF: 253..=256 matter as well)
    let fans: Vec<usize> = if thorough { (1..=256).collect() } else { vec![3, 4, 5, 8, 9, 126, 127, 128, 130, 253, 254, 255, 256] };
    for n in fans {
        let pats: Pats = (0..n).map(|i| vec![b'x', i as u8]).collect();
        v.push((format!("fan{}", n), pats));
    }
    // the same below every dense depth (depth 3), bytes 0x01.. so that the
    // set of used bytes differs from the depth-1 family
    let deep_fans: Vec<usize> = if thorough { vec![1, 2, 126, 127, 128, 129, 200, 252, 253, 254, 255] } else { vec![127, 128, 253, 254, 255] };
    for n in deep_fans {
        let pats: Pats = (0..n).map(|i| vec![b'a', b'b', b'c', (i + 1) as u8]).collect();
        v.push((format!("deepfan{}", n), pats));
    }
    v.push(("all256-single".into(), (0..=255u8).map(|i| vec![i]).collect()));
    // children spread over the whole byte range, always including 0x00 and
    // 0xFF (first / last byte class of a sparse state; with byte classes off
    // these are classes 0 and 255), at depth 1 and below every dense depth
    let spreads: Vec<usize> = if thorough { vec![2, 3, 4, 5, 6, 8, 9, 16, 17, 64, 127, 128] } else { vec![2, 4, 5, 8, 9, 127] };
    for n in spreads {
        let bytes: Vec<u8> = (0..n).map(|i| if i + 1 == n { 0xFF } else { (i * 255 / (n - 1)) as u8 }).collect();
        v.push((format!("spread{}", n), bytes.iter().map(|&x| vec![b'x', x]).collect()));
        v.push((format!("deepspread{}", n), bytes.iter().map(|&x| vec![b'k', b'e', b'y', x, b'e']).collect()));
    }
    // a node that is dense only because of its fan-out (>= 128 children),
    // whose failure link leads to a NON-dense state (one / few transitions),
    // at depth 2 and below every dense depth
    for n in [128usize, 200] {
        let mut pats: Pats = (0..n).map(|i| vec![b'a', b'x', (0x38 + i) as u8]).collect();
        pats.push(b("xq"));
        v.push((format!("widefail{}", n), pats));
        let mut pats: Pats = (0..n).map(|i| vec![b'x', b'a', b'b', b'c', (0x38 + i) as u8]).collect();
        pats.push(b("abcq"));
        pats.push(b("bcr"));
        v.push((format!("deepwidefail{}", n), pats));
    }
    // pattern ids that collide modulo 64 (and modulo 128) inside one match
    // list: ids 64+i ("z"+q_i) and i (q_i) share a state; 128 / 129 duplicate
    // 0 / 64
    {
        let q: Pats = (0..64usize).map(|i| vec![b'A' + (i % 26) as u8, b'a' + (i / 26) as u8]).collect();
        let mut pats: Pats = q.clone();
        pats.extend(q.iter().map(|p| {
            let mut z = vec![b'z'];
            z.extend_from_slice(p);
            z
        }));
        pats.push(q[0].clone());
        let mut z = vec![b'z'];
        z.extend_from_slice(&q[0]);
        pats.push(z);
        v.push(("ids-mod64".into(), pats));
    }
    // number of patterns around the automatic kind switch (<= 100 -> DFA)
    for n in [100usize, 101] {
        let pats: Pats = (0..n).map(|i| format!("k{}", i).into_bytes()).collect();
        v.push((format!("n{}", n), pats));
    }
    // duplicates
    v.push(("dups3".into(), vec![b("ab"), b("ab"), b("ab")]));
    v.push(("dups-mixed".into(), vec![b("ab"), b("b"), b("ab"), b("b"), b("")]));
    // a list that consists only of copies of one pattern of >= 8 bytes (a
    // single-substring prefilter would be possible; every id must be reported)
    v.push(("dups-long-2".into(), vec![b("haystack"), b("haystack")]));
    v.push(("dups-long-3".into(), vec![b("needle-xy"), b("needle-xy"), b("needle-xy")]));
    // empty pattern first / middle / last with 2- and 3-byte companions
    v.push(("empty-first".into(), vec![b(""), b("ab"), b("abc")]));
    v.push(("empty-middle".into(), vec![b("ab"), b(""), b("abc")]));
    v.push(("empty-last".into(), vec![b("ab"), b("abc"), b("")]));
    v.push(("empty-bc".into(), vec![b("abc"), b("bc"), b("")]));
    // case pairs
    v.push(("case-pairs".into(), vec![b("ab"), b("AB"), b("aB")]));
    // long pattern (rare byte prefilter off for >= 256?), and mixed
    v.push(("long300".into(), vec![vec![b'q'; 300], b("qr")]));
    v.push(("samwise".into(), vec![b("samwise"), b("sam"), b("wise"), b("am")]));
    v.push(("overlap-abab".into(), vec![b("abab"), b("bab"), b("ba"), b("abb")]));
    v
}

/// Adversarial families for case-insensitive models: wide nodes whose
/// children include all 26 letters AND the six bytes between 'Z' and 'a'
/// (under folding a letter's two transitions lead to the same child; the
/// bytes [ \\ ] ^ _ ` sort between them), with a suffix pattern to inherit.
pub fn uci_adv() -> Vec<(String, Pats)> {
    let mut v = vec![];
    let mut p: Pats = vec![b("a")];
    p.extend((b'a'..=b'z').map(|c| vec![b'x', c]));
    p.push(b("x_"));
    v.push(("ci-wide27".to_string(), p.clone()));
    for c in [b'[', b'\\', b']', b'^', b'`', b'@', b'{'] {
        p.push(vec![b'x', c]);
    }
    p.push(b("_"));
    v.push(("ci-wide34".to_string(), p));
    // the same at the root: all letters and the in-between bytes as
    // one-byte patterns next to two-byte patterns ending in them
    let mut q: Pats = (b'A'..=b'Z').map(|c| vec![c]).collect();
    q.extend([b'[', b'_', b'`'].iter().map(|&c| vec![c]));
    q.push(b("_z"));
    q.push(b("q_"));
    v.push(("ci-root-wide".to_string(), q));
    v
}

/// Case-insensitive lists of >= 32 non-empty patterns in which patterns that
/// are equal after folding, or prefixes of each other after folding, begin
/// with different cases of the same letter (C11 only).
pub fn uci_case_dups() -> Vec<(String, Pats)> {
    let mut v = vec![];
    // lower first, upper later
    let mut p: Pats = (b'a'..=b't').map(|c| vec![c, b'x']).collect();
    p.extend((b'A'..=b'J').map(|c| vec![c, b'x']));
    p.extend((b'K'..=b'O').map(|c| vec![c]));
    p.extend((b'P'..=b'R').map(|c| vec![c, b'X', b'y']));
    v.push(("ci-case-dups-lower-first-38".to_string(), p));
    // upper first, lower later
    let mut p: Pats = (b'A'..=b'T').map(|c| vec![c, b'x']).collect();
    p.extend((b'a'..=b'j').map(|c| vec![c, b'X']));
    p.extend((b'k'..=b'o').map(|c| vec![c]));
    p.extend((b'p'..=b'r').map(|c| vec![c, b'x', b'Y']));
    v.push(("ci-case-dups-upper-first-38".to_string(), p));
    // exactly 31 / 32 / 33 patterns, one case pair at the end
    for n in [31usize, 32, 33] {
        let mut p: Pats = (0..n - 2).map(|i| vec![b'a' + (i % 26) as u8, b'0' + (i / 26) as u8]).collect();
        p.push(b("zebra"));
        p.push(b("Zeb"));
        p.swap(3, n - 2);
        v.push((format!("ci-case-pair-in-{}", n), p));
    }
    v
}

/// The symbols that occur in a pattern list (plus opposite cases if `ci`),
/// sorted.
pub fn sigma(pats: &Pats, ci: bool) -> Vec<u8> {
    let mut set = [false; 256];
    for p in pats {
        for &x in p {
            set[x as usize] = true;
            if ci {
                set[crate::spec::opposite(x) as usize] = true;
            }
        }
    }
    (0..=255u8).filter(|&x| set[x as usize]).collect()
}

/// A byte that occurs in no pattern (nor as an opposite case).
pub fn bottom(pats: &Pats) -> u8 {
    let s = sigma(pats, true);
    for c in [b'z', b'-', b'#', 0x01, 0xFE] {
        if !s.contains(&c) {
            return c;
        }
    }
    (0..=255u8).find(|c| !s.contains(c)).unwrap_or(b'z')
}

/// Haystack alphabet for API replays of a model: sigma plus a bottom byte if
/// one exists.
pub fn hay_alpha(pats: &Pats, ci: bool) -> Vec<u8> {
    let mut a = sigma(pats, ci);
    if a.len() < 256 {
        let bt = bottom(pats);
        if !a.contains(&bt) {
            a.push(bt);
        }
    }
    a
}
