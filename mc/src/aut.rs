//! Uniform access to every searcher representation of the crate: the
//! top-level `AhoCorasick` (explicit and automatic kind) and the three
//! low-level automaton types, each with its builder options.

use crate::spec::{Kind, M};
use aho_corasick::{
    automaton::{Automaton, OverlappingState},
    dfa, nfa, AhoCorasick, AhoCorasickKind, Anchored, Input, Match, StartKind,
};
use std::panic::{catch_unwind, AssertUnwindSafe};

#[derive(Clone, Copy, Debug, PartialEq, Eq, Hash, PartialOrd, Ord)]
pub enum Sk {
    U,
    A,
    B,
}

impl Sk {
    pub fn ac(self) -> StartKind {
        match self {
            Sk::U => StartKind::Unanchored,
            Sk::A => StartKind::Anchored,
            Sk::B => StartKind::Both,
        }
    }
    pub fn supports(self, anchored: bool) -> bool {
        match self {
            Sk::B => true,
            Sk::U => !anchored,
            Sk::A => anchored,
        }
    }
    fn ch(self) -> char {
        match self {
            Sk::U => 'u',
            Sk::A => 'a',
            Sk::B => 'b',
        }
    }
    fn from_ch(c: &str) -> Sk {
        match c {
            "u" => Sk::U,
            "a" => Sk::A,
            _ => Sk::B,
        }
    }
}

/// A representation + its options. `pre` is the prefilter option.
#[derive(Clone, Copy, Debug, PartialEq, Eq, Hash, PartialOrd, Ord)]
pub enum Rep {
    /// top-level AhoCorasick; kind: 0 auto, 1 nNFA, 2 cNFA, 3 DFA;
    /// dd: None = default dense depth; bc = byte classes
    Top { kind: u8, sk: Sk, dd: Option<usize>, bc: bool },
    N { dd: usize },
    C { dd: usize, bc: bool },
    D { sk: Sk, bc: bool },
    /// contiguous NFA / DFA built by their OWN builders from the patterns
    /// (every option forwarded through that builder), not from a prebuilt
    /// noncontiguous NFA
    CB { dd: usize, bc: bool },
    DB { sk: Sk, bc: bool },
    /// contiguous NFA (dense depth `dd`) built from a noncontiguous NFA with
    /// ANOTHER dense depth `nn` (the two depths are independent options)
    CX { nn: usize, dd: usize },
    /// the plain constructors `X::new(patterns)`: 0 AhoCorasick, 1 nNFA,
    /// 2 cNFA, 3 DFA (all defaults: standard semantics, no folding)
    New { which: u8 },
}

#[derive(Clone, Copy, Debug, PartialEq, Eq, Hash, PartialOrd, Ord)]
pub struct Cfg {
    pub rep: Rep,
    pub pre: bool,
}

impl Cfg {
    pub fn name(&self) -> String {
        let p = if self.pre { 1 } else { 0 };
        match self.rep {
            Rep::Top { kind, sk, dd, bc } => format!(
                "top:kind={}:sk={}:dd={}:bc={}:pre={}",
                ["auto", "nnfa", "cnfa", "dfa"][kind as usize],
                sk.ch(),
                dd.map_or("def".to_string(), |d| d.to_string()),
                bc as u8,
                p
            ),
            Rep::N { dd } => format!("nnfa:dd={}:pre={}", dd, p),
            Rep::C { dd, bc } => format!("cnfa:dd={}:bc={}:pre={}", dd, bc as u8, p),
            Rep::D { sk, bc } => format!("dfa:sk={}:bc={}:pre={}", sk.ch(), bc as u8, p),
            Rep::CB { dd, bc } => format!("cnfab:dd={}:bc={}:pre={}", dd, bc as u8, p),
            Rep::CX { nn, dd } => format!("cnfax:nn={}:dd={}:pre={}", nn, dd, p),
            Rep::DB { sk, bc } => format!("dfab:sk={}:bc={}:pre={}", sk.ch(), bc as u8, p),
            Rep::New { which } => format!("new:which={}:pre={}", ["top", "nnfa", "cnfa", "dfa"][which as usize], p),
        }
    }
    /// Plain constructors exist only for the default configuration.
    pub fn applicable(&self, kind: Kind, ci: bool) -> bool {
        match self.rep {
            Rep::New { .. } => kind == Kind::Std && !ci && self.pre,
            _ => true,
        }
    }
    pub fn parse(s: &str) -> Option<Cfg> {
        let mut it = s.split(':');
        let head = it.next()?;
        let mut kv = std::collections::HashMap::new();
        for f in it {
            let (k, v) = f.split_once('=')?;
            kv.insert(k.to_string(), v.to_string());
        }
        let g = |k: &str| kv.get(k).cloned().unwrap_or_default();
        let pre = g("pre") == "1";
        let rep = match head {
            "top" => Rep::Top {
                kind: match g("kind").as_str() {
                    "nnfa" => 1,
                    "cnfa" => 2,
                    "dfa" => 3,
                    _ => 0,
                },
                sk: Sk::from_ch(&g("sk")),
                dd: g("dd").parse().ok(),
                bc: g("bc") == "1",
            },
            "nnfa" => Rep::N { dd: g("dd").parse().ok()? },
            "cnfa" => Rep::C { dd: g("dd").parse().ok()?, bc: g("bc") == "1" },
            "dfa" => Rep::D { sk: Sk::from_ch(&g("sk")), bc: g("bc") == "1" },
            "cnfab" => Rep::CB { dd: g("dd").parse().ok()?, bc: g("bc") == "1" },
            "cnfax" => Rep::CX { nn: g("nn").parse().ok()?, dd: g("dd").parse().ok()? },
            "dfab" => Rep::DB { sk: Sk::from_ch(&g("sk")), bc: g("bc") == "1" },
            "new" => Rep::New {
                which: match g("which").as_str() {
                    "nnfa" => 1,
                    "cnfa" => 2,
                    "dfa" => 3,
                    _ => 0,
                },
            },
            _ => return None,
        };
        Some(Cfg { rep, pre })
    }
    /// Which anchoring modes this searcher supports.
    pub fn supports(&self, anchored: bool) -> bool {
        match self.rep {
            Rep::Top { sk, .. } => sk.supports(anchored),
            Rep::D { sk, .. } => sk.supports(anchored),
            Rep::DB { sk, .. } => sk.supports(anchored),
            // default start kind of AhoCorasick::new and DFA::new: unanchored
            Rep::New { which: 0 } | Rep::New { which: 3 } => !anchored,
            _ => true,
        }
    }
    pub fn is_low(&self) -> bool {
        !matches!(self.rep, Rep::Top { .. } | Rep::New { which: 0 })
    }
}

/// The low-level representations of DESIGN.md section 2.3.
pub fn low_reps() -> Vec<Rep> {
    let mut v = vec![];
    for dd in [0usize, 1, 3] {
        v.push(Rep::N { dd });
    }
    for dd in [0usize, 1, 2] {
        for bc in [true, false] {
            v.push(Rep::C { dd, bc });
        }
    }
    for sk in [Sk::U, Sk::A, Sk::B] {
        for bc in [true, false] {
            v.push(Rep::D { sk, bc });
        }
    }
    v.push(Rep::CB { dd: 1, bc: true });
    v.push(Rep::CB { dd: usize::MAX, bc: true });
    v.push(Rep::CX { nn: 0, dd: 4 });
    v.push(Rep::CX { nn: 3, dd: 8 });
    v.push(Rep::DB { sk: Sk::B, bc: true });
    for which in 1..4u8 {
        v.push(Rep::New { which });
    }
    v
}

/// Top-level representations: automatic and the three explicit kinds, with
/// start kind Both, plus unanchored-only / anchored-only (where the automatic
/// kind picks a DFA), plus non-default dense depth / byte classes.
pub fn top_reps() -> Vec<Rep> {
    let mut v = vec![];
    for kind in 0..4u8 {
        v.push(Rep::Top { kind, sk: Sk::B, dd: None, bc: true });
    }
    v.push(Rep::Top { kind: 0, sk: Sk::U, dd: None, bc: true });
    v.push(Rep::Top { kind: 0, sk: Sk::A, dd: None, bc: true });
    v.push(Rep::Top { kind: 3, sk: Sk::U, dd: None, bc: false });
    v.push(Rep::Top { kind: 2, sk: Sk::B, dd: Some(0), bc: false });
    v.push(Rep::Top { kind: 1, sk: Sk::B, dd: Some(0), bc: true });
    v.push(Rep::New { which: 0 });
    v
}

pub enum Searcher {
    Top(AhoCorasick),
    N(nfa::noncontiguous::NFA),
    C(nfa::contiguous::NFA),
    D(dfa::DFA),
}

#[macro_export]
macro_rules! with_aut {
    ($s:expr, $a:ident => $body:expr, $top:expr) => {
        match $s {
            $crate::aut::Searcher::N($a) => $body,
            $crate::aut::Searcher::C($a) => $body,
            $crate::aut::Searcher::D($a) => $body,
            $crate::aut::Searcher::Top(_) => $top,
        }
    };
}

pub fn build(pats: &[Vec<u8>], kind: Kind, ci: bool, cfg: Cfg) -> Result<Searcher, String> {
    let r = catch_unwind(AssertUnwindSafe(|| build_inner(pats, kind, ci, cfg)));
    match r {
        Ok(x) => x,
        Err(p) => Err(format!("PANIC in build: {}", panic_msg(&p))),
    }
}

fn build_inner(pats: &[Vec<u8>], kind: Kind, ci: bool, cfg: Cfg) -> Result<Searcher, String> {
    let e = |e: aho_corasick::BuildError| format!("build error: {}", e);
    match cfg.rep {
        Rep::Top { kind: k, sk, dd, bc } => {
            let mut b = AhoCorasick::builder();
            b.match_kind(kind.ac())
                .ascii_case_insensitive(ci)
                .prefilter(cfg.pre)
                .start_kind(sk.ac())
                .byte_classes(bc)
                .kind(match k {
                    1 => Some(AhoCorasickKind::NoncontiguousNFA),
                    2 => Some(AhoCorasickKind::ContiguousNFA),
                    3 => Some(AhoCorasickKind::DFA),
                    _ => None,
                });
            if let Some(d) = dd {
                b.dense_depth(d);
            }
            Ok(Searcher::Top(b.build(pats).map_err(e)?))
        }
        Rep::N { dd } => Ok(Searcher::N(build_nnfa(pats, kind, ci, cfg.pre, dd)?)),
        Rep::C { dd, bc } => {
            let n = build_nnfa(pats, kind, ci, cfg.pre, 3)?;
            Ok(Searcher::C(
                nfa::contiguous::Builder::new()
                    .dense_depth(dd)
                    .byte_classes(bc)
                    .build_from_noncontiguous(&n)
                    .map_err(e)?,
            ))
        }
        Rep::D { sk, bc } => {
            let n = build_nnfa(pats, kind, ci, cfg.pre, 3)?;
            Ok(Searcher::D(
                dfa::Builder::new()
                    .start_kind(sk.ac())
                    .byte_classes(bc)
                    .build_from_noncontiguous(&n)
                    .map_err(e)?,
            ))
        }
        Rep::CX { nn, dd } => {
            let n = build_nnfa(pats, kind, ci, cfg.pre, nn)?;
            Ok(Searcher::C(nfa::contiguous::Builder::new().dense_depth(dd).build_from_noncontiguous(&n).map_err(e)?))
        }
        Rep::CB { dd, bc } => Ok(Searcher::C(
            nfa::contiguous::Builder::new()
                .match_kind(kind.ac())
                .ascii_case_insensitive(ci)
                .prefilter(cfg.pre)
                .dense_depth(dd)
                .byte_classes(bc)
                .build(pats)
                .map_err(e)?,
        )),
        Rep::DB { sk, bc } => Ok(Searcher::D(
            dfa::Builder::new()
                .match_kind(kind.ac())
                .ascii_case_insensitive(ci)
                .prefilter(cfg.pre)
                .start_kind(sk.ac())
                .byte_classes(bc)
                .build(pats)
                .map_err(e)?,
        )),
        Rep::New { which } => {
            if !cfg.applicable(kind, ci) {
                return Err("plain constructors exist only for the default configuration".into());
            }
            Ok(match which {
                1 => Searcher::N(nfa::noncontiguous::NFA::new(pats).map_err(e)?),
                2 => Searcher::C(nfa::contiguous::NFA::new(pats).map_err(e)?),
                3 => Searcher::D(dfa::DFA::new(pats).map_err(e)?),
                _ => Searcher::Top(AhoCorasick::new(pats).map_err(e)?),
            })
        }
    }
}

pub fn build_nnfa(
    pats: &[Vec<u8>],
    kind: Kind,
    ci: bool,
    pre: bool,
    dd: usize,
) -> Result<nfa::noncontiguous::NFA, String> {
    nfa::noncontiguous::Builder::new()
        .match_kind(kind.ac())
        .ascii_case_insensitive(ci)
        .prefilter(pre)
        .dense_depth(dd)
        .build(pats)
        .map_err(|e| format!("build error: {}", e))
}

pub fn panic_msg(p: &Box<dyn std::any::Any + Send>) -> String {
    if let Some(s) = p.downcast_ref::<&str>() {
        s.to_string()
    } else if let Some(s) = p.downcast_ref::<String>() {
        s.clone()
    } else {
        "<non-string panic>".to_string()
    }
}

#[inline]
pub fn mm(m: Match) -> M {
    (m.pattern().as_usize(), m.start(), m.end())
}

#[inline]
pub fn anc(anchored: bool) -> Anchored {
    if anchored {
        Anchored::Yes
    } else {
        Anchored::No
    }
}

fn input<'h>(h: &'h [u8], s: usize, e: usize, anchored: bool, earliest: bool) -> Input<'h> {
    Input::new(h).span(s..e).anchored(anc(anchored)).earliest(earliest)
}

/// Result of an API call: Ok(value), or Err(text) where text starts with
/// "ERR" for an error value and "PANIC" for a panic.
pub type R<T> = Result<T, String>;

fn guard<T>(f: impl FnOnce() -> R<T>) -> R<T> {
    match catch_unwind(AssertUnwindSafe(f)) {
        Ok(r) => r,
        Err(p) => Err(format!("PANIC: {}", panic_msg(&p))),
    }
}

fn me(e: aho_corasick::MatchError) -> String {
    format!("ERR: {}", e)
}

impl Searcher {
    pub fn try_find(&self, h: &[u8], s: usize, e: usize, anchored: bool, earliest: bool) -> R<Option<M>> {
        guard(|| {
            let inp = input(h, s, e, anchored, earliest);
            match self {
                Searcher::Top(ac) => ac.try_find(inp).map(|o| o.map(mm)).map_err(me),
                Searcher::N(a) => a.try_find(&inp).map(|o| o.map(mm)).map_err(me),
                Searcher::C(a) => a.try_find(&inp).map(|o| o.map(mm)).map_err(me),
                Searcher::D(a) => a.try_find(&inp).map(|o| o.map(mm)).map_err(me),
            }
        })
    }

    /// `is_match` (top-level: the real `is_match`; low-level: earliest find).
    pub fn is_match(&self, h: &[u8], s: usize, e: usize, anchored: bool) -> R<bool> {
        match self {
            Searcher::Top(ac) => guard(|| Ok(ac.is_match(input(h, s, e, anchored, false)))),
            _ => self.try_find(h, s, e, anchored, true).map(|o| o.is_some()),
        }
    }

    pub fn find_iter(&self, h: &[u8], s: usize, e: usize, anchored: bool) -> R<Vec<M>> {
        guard(|| {
            let inp = input(h, s, e, anchored, false);
            let cap = 4 * (h.len() + 2);
            fn drain(it: impl Iterator<Item = Match>, cap: usize) -> R<Vec<M>> {
                let mut v = vec![];
                for m in it {
                    v.push(mm(m));
                    if v.len() > cap {
                        return Err("ERR: iterator does not terminate".into());
                    }
                }
                Ok(v)
            }
            match self {
                Searcher::Top(ac) => drain(ac.try_find_iter(inp).map_err(me)?, cap),
                Searcher::N(a) => drain(a.try_find_iter(inp).map_err(me)?, cap),
                Searcher::C(a) => drain(a.try_find_iter(inp).map_err(me)?, cap),
                Searcher::D(a) => drain(a.try_find_iter(inp).map_err(me)?, cap),
            }
        })
    }

    /// Step an overlapping search on one state until it reports no match,
    /// then `extra` more times (each must keep reporting no match; otherwise
    /// the list returned contains a `(usize::MAX, k, 0)` marker).
    pub fn overlapping_steps(&self, h: &[u8], s: usize, e: usize, anchored: bool, extra: usize) -> R<Vec<M>> {
        guard(|| {
            let inp = input(h, s, e, anchored, false);
            let mut st = OverlappingState::start();
            let mut v = vec![];
            let cap = (h.len() + 2) * (self.patterns_len() + 1) * 2 + 8;
            let mut after = 0usize;
            loop {
                match self {
                    Searcher::Top(ac) => ac.try_find_overlapping(inp.clone(), &mut st).map_err(me)?,
                    Searcher::N(a) => a.try_find_overlapping(&inp, &mut st).map_err(me)?,
                    Searcher::C(a) => a.try_find_overlapping(&inp, &mut st).map_err(me)?,
                    Searcher::D(a) => a.try_find_overlapping(&inp, &mut st).map_err(me)?,
                }
                match st.get_match() {
                    Some(m) => {
                        if after > 0 {
                            v.push((usize::MAX, after, 0));
                        }
                        v.push(mm(m));
                        if v.len() > cap {
                            return Err("ERR: overlapping search does not terminate".into());
                        }
                    }
                    None => {
                        if after >= extra {
                            break;
                        }
                        after += 1;
                    }
                }
            }
            Ok(v)
        })
    }

    pub fn overlapping_iter(&self, h: &[u8], s: usize, e: usize, anchored: bool) -> R<Vec<M>> {
        guard(|| {
            let inp = input(h, s, e, anchored, false);
            let cap = (h.len() + 2) * (self.patterns_len() + 1) * 2 + 8;
            fn drain(it: impl Iterator<Item = Match>, cap: usize) -> R<Vec<M>> {
                let mut v = vec![];
                for m in it {
                    v.push(mm(m));
                    if v.len() > cap {
                        return Err("ERR: iterator does not terminate".into());
                    }
                }
                Ok(v)
            }
            match self {
                Searcher::Top(ac) => drain(ac.try_find_overlapping_iter(inp).map_err(me)?, cap),
                Searcher::N(a) => drain(a.try_find_overlapping_iter(inp).map_err(me)?, cap),
                Searcher::C(a) => drain(a.try_find_overlapping_iter(inp).map_err(me)?, cap),
                Searcher::D(a) => drain(a.try_find_overlapping_iter(inp).map_err(me)?, cap),
            }
        })
    }

    pub fn patterns_len(&self) -> usize {
        match self {
            Searcher::Top(ac) => ac.patterns_len(),
            Searcher::N(a) => a.patterns_len(),
            Searcher::C(a) => a.patterns_len(),
            Searcher::D(a) => a.patterns_len(),
        }
    }

    /// Best-effort name of the prefilter in use (low-level types only); never
    /// a verdict, only recorded in evidence.
    pub fn prefilter_name(&self) -> String {
        let d = match self {
            Searcher::Top(_) => return "?".into(),
            Searcher::N(a) => a.prefilter().map(|p| format!("{:?}", p)),
            Searcher::C(a) => a.prefilter().map(|p| format!("{:?}", p)),
            Searcher::D(a) => a.prefilter().map(|p| format!("{:?}", p)),
        };
        match d {
            None => "none".into(),
            Some(s) => {
                for n in [
                    "Memmem", "RareBytesOne", "RareBytesTwo", "RareBytesThree", "StartBytesOne",
                    "StartBytesTwo", "StartBytesThree", "Packed",
                ] {
                    if s.contains(n) {
                        return n.to_string();
                    }
                }
                "other".into()
            }
        }
    }
}
