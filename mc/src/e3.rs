//! Engine E3 `packmc`: bounded-exhaustive enumeration of (pattern family x
//! core x filler x offset x tail length x span) for the position-dependent
//! vector code (Teddy, Rabin-Karp, prefilters) against SPEC or against the
//! same searcher in another configuration. See DESIGN.md section 4.

use crate::json::{self, J};
use crate::report::{par_for_desc, pats_j, pats_show, Report, Stats, Violation};
use crate::spec::{Kind, Spec, M};
use crate::universe::{self, Pats};
use aho_corasick::packed;
use aho_corasick::{AhoCorasick, AhoCorasickKind, Anchored, Input, Span};
use std::panic::{catch_unwind, AssertUnwindSafe};

pub const V: usize = 32;

#[derive(Clone)]
pub struct Fam {
    pub name: String,
    pub pats: Pats,
    /// symbols used to build short cores
    pub alpha: Vec<u8>,
}

fn b(s: &str) -> Vec<u8> {
    s.as_bytes().to_vec()
}

fn fam(name: &str, pats: Vec<Vec<u8>>) -> Fam {
    let mut alpha: Vec<u8> = vec![];
    for p in &pats {
        for &x in p {
            if !alpha.contains(&x) && alpha.len() < 3 {
                alpha.push(x);
            }
        }
    }
    Fam { name: name.to_string(), pats, alpha }
}

/// Families of non-empty patterns for the packed searchers, grouped so that
/// every fingerprint length (1..=4) occurs, built to collide.
pub fn packed_families() -> Vec<Fam> {
    let mut v = vec![
        // fingerprint length 1
        fam("m1-single", vec![b("a")]),
        fam("m1-two", vec![b("a"), b("b")]),
        fam("m1-prefix-chain", vec![b("a"), b("ab"), b("abc")]),
        fam("m1-prefix-chain-rev", vec![b("abc"), b("ab"), b("a")]),
        fam("m1-same-low-nybble", (0..9u8).map(|i| vec![0x01 | (i << 4)]).collect()),
        fam("m1-same-high-nybble", (0..10u8).map(|i| vec![0x60 | i]).collect()),
        fam("m1-20-singles", (0..20u8).map(|i| vec![b'a' + i]).collect()),
        // fingerprint length 2
        fam("m2-single", vec![b("ab")]),
        fam("m2-swap", vec![b("ab"), b("ba")]),
        fam("m2-prefix-chain", vec![b("ab"), b("abc"), b("abcd")]),
        fam("m2-prefix-chain-rev", vec![b("abcd"), b("abc"), b("ab")]),
        fam("m2-crossed-nybbles", vec![vec![0x61, 0x62], vec![0x71, 0x62], vec![0x61, 0x72], vec![0x62, 0x61]]),
        fam("m2-twelve", (0..12u8).map(|i| vec![b'a' + (i % 4), b'a' + (i / 4)]).collect()),
        fam("m2-aa", vec![b("aa"), b("aab"), b("ba")]),
        // duplicates: "ties to the one supplied first" (both kinds)
        fam("m2-dups", vec![b("ab"), b("ab"), b("abc"), b("abc"), b("b"), b("b")]),
        fam("m4-dups-24", (0..24usize).map(|i| { let k = i % 8; vec![b'a' + (k % 3) as u8, b'b' + (k / 3) as u8, b'c', b'd'] }).collect()),
        fam("m3-dups-64-mixed-lengths", (0..64usize).map(|i| { let k = (i * 7) % 16; let mut p = vec![b'a' + (k % 4) as u8, b'e' + (k / 4) as u8, b'x']; p.extend(std::iter::repeat(b'y').take(k % 4)); p }).collect()),
        fam("m3-dups-40", (0..40usize).map(|i| { let k = (i * 7) % 10; vec![b'a' + (k % 5) as u8, b'a' + (k / 5) as u8, b'x'] }).collect()),
        // fingerprint length 3
        fam("m3-single", vec![b("abc")]),
        fam("m3-shifted", vec![b("abc"), b("bcd"), b("cde")]),
        fam("m3-shared-prefix", vec![b("abc"), b("abd"), b("abcd")]),
        fam("m3-aaa", vec![b("aaa"), b("aab"), b("baa")]),
        // fingerprint length 4
        fam("m4-single", vec![b("abcd")]),
        fam("m4-shifted", vec![b("abcd"), b("bcde")]),
        fam("m4-prefix-long", vec![b("abcdefgh"), b("abcd")]),
        fam("m4-prefix-long-rev", vec![b("abcd"), b("abcdefgh")]),
        fam("m4-aaaa", vec![b("aaaa"), b("aaab"), b("abaa")]),
        fam("m4-tail-5", vec![b("abcde"), b("abcdf")]),
        fam("m4-tail-12", vec![b("abcdefghijkl"), b("abcdefghijkm"), b("abcdefghi")]),
        fam("m4-longer-than-vector", vec![b("abcdabcdabcdabcdabcdabcdabcdabcdabcdabcd"), b("abcd"), b("dabc")]),
    ];
    // many patterns: bucket wrap-around (> 8 and > 16 buckets), 64 and 128
    for n in [24usize, 64, 128] {
        let pats: Pats = (0..n)
            .map(|i| vec![b'a' + (i % 4) as u8, b'a' + ((i / 4) % 4) as u8, b'a' + ((i / 16) % 4) as u8, b'a' + ((i / 64) % 4) as u8])
            .collect();
        v.push(fam(&format!("m4-{}-patterns", n), pats));
    }
    let pats: Pats = (0..40usize).map(|i| vec![b'a' + (i % 8) as u8, b'A' + (i / 8) as u8]).collect();
    v.push(fam("m2-40-patterns", pats));
    // every pattern longer than a machine word has bits (the Rabin-Karp
    // window is the shortest pattern), and longer than two vectors
    let long = |n: usize, seed: u8| -> Vec<u8> { (0..n).map(|i| b'a' + ((i as u8).wrapping_mul(7).wrapping_add(seed) % 23)).collect() };
    // shortest pattern exactly as long as / slightly longer than one vector
    // (16, 32) and than the 256-bit searcher's minimum haystack (35)
    for n in [15usize, 16, 17, 19, 31, 32, 33, 34, 35, 36] {
        v.push(fam(&format!("m4-minlen{}", n), vec![long(n, 1), long(n, 5), long(n + 1, 9), long(n, 13)]));
    }
    // Rabin-Karp buckets (hash of the first minimum_len bytes, base 2, 64
    // buckets): two patterns with the SAME window hash around one whose hash
    // differs by a multiple of 64, in buckets of exactly 3, 4 and 5 entries,
    // for window lengths 1..=4 (a +-64 / 32 / 16 / 8 step in the first byte)
    for (m, x, y) in [(1usize, "a", "!"), (2, "ab", "Ab"), (3, "abc", "qbc"), (4, "abcd", "ibcd")] {
        let xl = format!("{}x", x);
        let yl = format!("{}y", y);
        let xll = format!("{}xy", x);
        v.push(fam(&format!("rk-m{}-bucket3", m), vec![b(&xl), b(y), b(x)]));
        v.push(fam(&format!("rk-m{}-bucket3-longest", m), vec![b(x), b(&yl), b(&xll)]));
        v.push(fam(&format!("rk-m{}-bucket4", m), vec![b(&xl), b(y), b(x), b(&yl)]));
        v.push(fam(&format!("rk-m{}-bucket5", m), vec![b(&xll), b(y), b(&xl), b(&yl), b(x)]));
    }
    v.push(fam("m4-len65-66", vec![long(65, 1), long(66, 5)]));
    v.push(fam("m4-len64-80", vec![long(64, 2), long(80, 9)]));
    v.push(fam("m4-len129-200", vec![long(129, 3), long(200, 11), long(130, 3)]));
    v
}

fn clean_filler(pats: &Pats) -> u8 {
    universe::bottom(pats)
}

/// Fillers: a byte in no pattern, and decoys sharing only the low / only the
/// high nybble of a pattern's first byte (candidates that must fail
/// verification). None of them occurs in any pattern.
pub fn fillers(pats: &Pats) -> Vec<u8> {
    let sig = universe::sigma(pats, true);
    let mut v = vec![clean_filler(pats)];
    let f0 = pats[0][0];
    for cand in (1..16u8).map(|k| f0 ^ (k << 4)).chain((1..16u8).map(|k| f0 ^ k)) {
        // first candidate with the same low nybble, then with the same high
        let same_low = cand & 0x0F == f0 & 0x0F;
        if !sig.contains(&cand) && !v.contains(&cand) {
            let have_low = v.len() >= 2;
            if same_low && !have_low {
                v.push(cand);
            } else if !same_low && v.len() < 3 {
                v.push(cand);
                break;
            }
        }
    }
    v
}

/// Cores: the interesting middles of a haystack.
pub fn cores(f: &Fam, thorough: bool) -> Vec<Vec<u8>> {
    let mut v: Vec<Vec<u8>> = universe::strings(&f.alpha, if thorough { 3 } else { 2 });
    let idx: Vec<usize> = if f.pats.len() <= 12 {
        (0..f.pats.len()).collect()
    } else {
        (0..6).chain(f.pats.len() - 6..f.pats.len()).collect()
    };
    for &i in &idx {
        let p = &f.pats[i];
        v.push(p.clone());
        let mut pp = p.clone();
        pp.extend_from_slice(p);
        v.push(pp);
        for &j in idx.iter().take(4) {
            let q = &f.pats[j];
            // proper prefix of q followed by p, suffix of q followed by p
            if q.len() >= 2 {
                let mut a = q[..q.len() - 1].to_vec();
                a.extend_from_slice(p);
                v.push(a);
                let mut c = q[1..].to_vec();
                c.extend_from_slice(p);
                v.push(c);
            }
        }
        // near misses: one byte altered at every position (tail compare)
        if p.len() <= 16 || thorough {
            for k in 0..p.len() {
                let mut nm = p.clone();
                nm[k] ^= 0x01;
                v.push(nm);
                if k % 4 == 3 || k + 1 == p.len() {
                    let mut nm2 = p.clone();
                    nm2[k] ^= 0x40;
                    v.push(nm2);
                }
            }
        }
    }
    v.sort();
    v.dedup();
    v
}

fn js(thorough: bool) -> Vec<usize> {
    if thorough {
        (0..=V + 1).collect()
    } else {
        vec![0, 1, 2, 3, 7, 14, 15, 16, 17, V - 2, V - 1, V, V + 1]
    }
}

fn imax(mask: usize, thorough: bool) -> usize {
    if thorough {
        2 * V + mask + 1
    } else {
        V + mask + 1
    }
}

/// Enumerate haystacks filler^i . core . filler^j and call `f(h, i)`.
pub fn templates<F: FnMut(&[u8], usize, u8)>(core: &[u8], fills: &[u8], mask: usize, thorough: bool, mut f: F) {
    // long cores (patterns longer than two vectors) still get every offset
    let total_max = (2 * V + 8).max(core.len() + V + mask + 2);
    let mut h: Vec<u8> = Vec::with_capacity(total_max + 8);
    for &fl in fills {
        for i in 0..=imax(mask, thorough) {
            for &j in &js(thorough) {
                if i + core.len() + j > total_max && !(i == 0 && j == 0) {
                    continue;
                }
                h.clear();
                h.extend(std::iter::repeat(fl).take(i));
                h.extend_from_slice(core);
                h.extend(std::iter::repeat(fl).take(j));
                f(&h, i, fl);
            }
        }
    }
}

/// Span forms for a template with the core at offset i.
pub fn span_forms(n: usize, i: usize, clen: usize, thorough: bool, out: &mut Vec<(usize, usize)>) {
    out.clear();
    out.push((0, n));
    let ce = (i + clen).min(n);
    for sp in [(i.min(n), n), (0, ce), (i.min(n), ce), ((i + 1).min(n), n), (0, ce.saturating_sub(1))] {
        if sp.0 <= sp.1 && !out.contains(&sp) {
            out.push(sp);
        }
    }
    if thorough && n <= 20 {
        for s in 0..=n {
            for e in s..=n {
                if !out.contains(&(s, e)) {
                    out.push((s, e));
                }
            }
        }
    }
    if n >= 1 {
        out.push((n, n - 1)); // start one past the end
    }
}

#[derive(Clone, Copy, PartialEq, Eq, Debug)]
pub enum PVar {
    RabinKarp,
    Slim128,
    Slim256,
    Fat256,
    Default,
}

impl PVar {
    pub const ALL: [PVar; 5] = [PVar::RabinKarp, PVar::Slim128, PVar::Slim256, PVar::Fat256, PVar::Default];
    pub fn name(self) -> &'static str {
        match self {
            PVar::RabinKarp => "rabin-karp",
            PVar::Slim128 => "slim-teddy-128",
            PVar::Slim256 => "slim-teddy-256",
            PVar::Fat256 => "fat-teddy-256",
            PVar::Default => "default-heuristics",
        }
    }
    pub fn from_name(s: &str) -> PVar {
        for v in PVar::ALL {
            if v.name() == s {
                return v;
            }
        }
        PVar::Default
    }
}

pub fn build_packed(pats: &Pats, kind: Kind, var: PVar) -> Option<packed::Searcher> {
    let mk = if kind == Kind::LL { packed::MatchKind::LeftmostLongest } else { packed::MatchKind::LeftmostFirst };
    let mut c = packed::Config::new();
    c.match_kind(mk);
    match var {
        PVar::RabinKarp => {
            c.only_rabin_karp(true);
        }
        PVar::Slim128 => {
            c.only_teddy(true).only_teddy_256bit(Some(false)).only_teddy_fat(Some(false)).heuristic_pattern_limits(false);
        }
        PVar::Slim256 => {
            c.only_teddy(true).only_teddy_256bit(Some(true)).only_teddy_fat(Some(false)).heuristic_pattern_limits(false);
        }
        PVar::Fat256 => {
            c.only_teddy(true).only_teddy_256bit(Some(true)).only_teddy_fat(Some(true)).heuristic_pattern_limits(false);
        }
        PVar::Default => {}
    }
    let mut bld = c.builder();
    bld.extend(pats.iter());
    bld.build()
}

fn mm(m: aho_corasick::Match) -> M {
    (m.pattern().as_usize(), m.start(), m.end())
}

fn shift(occ: &[M], i: usize) -> Vec<M> {
    occ.iter().map(|&(p, a, e)| (p, a + i, e + i)).collect()
}

// ---------------------------------------------------------------- C06

pub fn run_c06(rep: &Report) -> i32 {
    let t = rep.thorough();
    let fams = packed_families();
    struct W {
        f: usize,
        kind: Kind,
        var: PVar,
    }
    let mut items = vec![];
    for f in 0..fams.len() {
        for kind in [Kind::LF, Kind::LL] {
            for var in PVar::ALL {
                items.push(W { f, kind, var });
            }
        }
    }
    let desc = |i: usize| format!("{} {} {}", fams[items[i].f].name, items[i].kind.name(), items[i].var.name());
    par_for_desc(rep, items.len(), &desc, |ix, st| {
        let w = &items[ix];
        let f = &fams[w.f];
        let sr = match catch_unwind(AssertUnwindSafe(|| build_packed(&f.pats, w.kind, w.var))) {
            Ok(Some(s)) => s,
            Ok(None) => {
                st.add("variants_not_built", 1);
                rep.set_add("not_built", format!("{}:{}", f.name, w.var.name()));
                return;
            }
            Err(p) => {
                rep.violation(Violation {
                    property: rep.property.clone(),
                    what: "packed-build-panic".into(),
                    case: J::obj().set("engine", J::s("packed")).set("patterns", pats_j(&f.pats)).set("kind", J::s(w.kind.name())).set("variant", J::s(w.var.name())).set("haystack", J::s("")).set("span", J::Arr(vec![J::i(0), J::i(0)])),
                    detail: format!("{} {} {}: builder panicked: {}", f.name, w.kind.name(), w.var.name(), crate::aut::panic_msg(&p)),
                    tags: vec![],
                });
                return;
            }
        };
        let minlen = f.pats.iter().map(|p| p.len()).min().unwrap();
        let mask = minlen.min(4);
        let vname = if w.var == PVar::RabinKarp || w.var == PVar::Default { w.var.name().to_string() } else { format!("{}-mask{}", w.var.name(), mask) };
        rep.set_add("variants_exercised", vname.clone());
        st.add("searchers", 1);
        let spec = Spec::new(f.pats.clone(), false);
        let fills = fillers(&f.pats);
        let cs = cores(f, t);
        let full_naive = w.f < 4 || f.pats.len() <= 2; // oracle cross-check families
        let mut spans = vec![];
        for core in &cs {
            let occ0 = spec.occ(core, 0, core.len(), false);
            if !occ0.is_empty() {
                st.add("cores_with_match", 1);
            }
            st.add("cores", 1);
            templates(core, &fills, mask, t, |h, i, fl| {
                let occ = shift(&occ0, i);
                span_forms(h.len(), i, core.len(), t, &mut spans);
                for &(s, e) in &spans {
                    let exp = if s > e { None } else { Spec::select(w.kind, occ.iter().copied().filter(|&(_, a, b2)| a >= s && b2 <= e)) };
                    if full_naive {
                        let naive = spec.find(w.kind, h, s, e, false);
                        if naive != exp {
                            rep.machinery(format!("oracle self-disagreement (shift lemma) on {:?} [{}..{}]: {:?} vs {:?}", json::show(h), s, e, exp, naive));
                        }
                        st.add("oracle_crosschecks", 1);
                    }
                    if s > e {
                        continue; // packed::Searcher::find_in has no notion of start = end + 1
                    }
                    let got = catch_unwind(AssertUnwindSafe(|| sr.find_in(h, Span { start: s, end: e }).map(mm)));
                    st.add("searches", 1);
                    let bad = match &got {
                        Ok(g) => *g != exp,
                        Err(_) => true,
                    };
                    if bad {
                        let gs = match &got {
                            Ok(g) => format!("{:?}", g),
                            Err(p) => format!("PANIC: {}", crate::aut::panic_msg(p)),
                        };
                        rep.violation(Violation {
                            property: rep.property.clone(),
                            what: if got.is_err() { "packed-panic".into() } else { "packed-find-mismatch".into() },
                            case: packed_case(&f.pats, w.kind, w.var, h, s, e, "find_in"),
                            detail: format!(
                                "{} {} {} {}: find_in(\"{}\"(len {}), {}..{}) core at {} filler {:#04x}: got {}, SPEC {:?}",
                                f.name, pats_show(&f.pats), w.kind.name(), vname, json::show(h), h.len(), s, e, i, fl, gs, exp
                            ),
                            tags: vec![("variant".into(), vname.clone()), ("kind".into(), w.kind.name().into())],
                        });
                    }
                }
                // the convenience entry point `find` (whole haystack)
                let exp0 = Spec::select(w.kind, occ.iter().copied());
                let got0 = catch_unwind(AssertUnwindSafe(|| sr.find(h).map(mm)));
                st.add("searches", 1);
                if got0.as_ref().ok() != Some(&exp0) {
                    rep.violation(Violation {
                        property: rep.property.clone(),
                        what: "packed-find-mismatch".into(),
                        case: packed_case(&f.pats, w.kind, w.var, h, 0, h.len(), "find"),
                        detail: format!(
                            "{} {} {} {}: find(\"{}\"): got {:?}, SPEC {:?}",
                            f.name, pats_show(&f.pats), w.kind.name(), vname, json::show(h), got0.map_err(|p| crate::aut::panic_msg(&p)), exp0
                        ),
                        tags: vec![("variant".into(), vname.clone()), ("kind".into(), w.kind.name().into())],
                    });
                }
                // iterator on the whole haystack
                let exp_it = Spec::iter_occ(w.kind, &occ, 0, h.len());
                let got_it = catch_unwind(AssertUnwindSafe(|| sr.find_iter(h).take(h.len() + 2).map(mm).collect::<Vec<M>>()));
                st.add("searches", 1);
                if got_it.as_ref().ok() != Some(&exp_it) {
                    rep.violation(Violation {
                        property: rep.property.clone(),
                        what: "packed-iter-mismatch".into(),
                        case: packed_case(&f.pats, w.kind, w.var, h, 0, h.len(), "find_iter"),
                        detail: format!(
                            "{} {} {} {}: find_iter(\"{}\"): got {:?}, SPEC {:?}",
                            f.name, pats_show(&f.pats), w.kind.name(), vname, json::show(h), got_it.map_err(|p| crate::aut::panic_msg(&p)), exp_it
                        ),
                        tags: vec![("variant".into(), vname.clone()), ("kind".into(), w.kind.name().into())],
                    });
                }
                st.add("haystacks", 1);
                if !occ.is_empty() {
                    st.add("haystacks_with_match", 1);
                }
            });
        }
        // "stray" templates: one byte that looks like the second / third /
        // fourth byte of a pattern early in the haystack, then clean filler,
        // then a pattern at EVERY offset up to three vector widths, then a
        // tail long enough to keep it out of the final overlapping window:
        // state carried from one vector window to the next (prev0..prev2)
        // must not go stale across windows without candidates
        {
            let fl = fills[0];
            let mut strays: Vec<u8> = vec![];
            for p in &f.pats {
                for &x in p.iter().skip(1).take(3) {
                    if !strays.contains(&x) && !f.pats.iter().any(|q| q.len() == 1 && q[0] == x) && strays.len() < 4 {
                        strays.push(x);
                    }
                }
            }
            let idx: Vec<usize> = if f.pats.len() <= 6 { (0..f.pats.len()).collect() } else { vec![0, 1, f.pats.len() / 2, f.pats.len() - 1] };
            let mut h: Vec<u8> = Vec::with_capacity(5 * V);
            for &pi in &idx {
                let p = &f.pats[pi];
                if p.len() > 2 * V {
                    continue;
                }
                let occ0 = spec.occ(p, 0, p.len(), false);
                for &sb in &strays {
                    for a in [0usize, 1, 2] {
                        // at least one clean byte between the stray byte and
                        // the pattern, so that the only occurrences are those of
                        // the pattern itself
                        for i in a + 2..=3 * V + 4 {
                            if !t && i > a + 2 && (i % 16) > 4 && (i % 16) < 13 {
                                continue; // quick tier: offsets near the 16-byte window boundaries
                            }
                            for j in [0usize, 17, V + 8, 2 * V + 8] {
                                h.clear();
                                h.extend(std::iter::repeat(fl).take(a));
                                h.push(sb);
                                h.extend(std::iter::repeat(fl).take(i - a - 1));
                                h.extend_from_slice(p);
                                h.extend(std::iter::repeat(fl).take(j));
                                let exp = Spec::select(w.kind, shift(&occ0, i).into_iter());
                                let got = catch_unwind(AssertUnwindSafe(|| sr.find(&h).map(mm)));
                                st.add("searches", 1);
                                st.add("stray_template_searches", 1);
                                if got.as_ref().ok() != Some(&exp) {
                                    rep.violation(Violation {
                                        property: rep.property.clone(),
                                        what: "packed-find-mismatch".into(),
                                        case: packed_case(&f.pats, w.kind, w.var, &h, 0, h.len(), "find"),
                                        detail: format!(
                                            "{} {} {} {}: find(\"{}\") (stray byte {:#04x} at {}, pattern at {}): got {:?}, SPEC {:?}",
                                            f.name, pats_show(&f.pats), w.kind.name(), vname, json::show(&h), sb, a, i, got.map_err(|p| crate::aut::panic_msg(&p)), exp
                                        ),
                                        tags: vec![("variant".into(), vname.clone()), ("kind".into(), w.kind.name().into())],
                                    });
                                }
                            }
                        }
                    }
                }
            }
        }
        if rep.nsamples() < 4 && ix % 37 == 5 {
            rep.sample(
                J::obj()
                    .set("family", J::s(f.name.clone()))
                    .set("patterns", J::s(pats_show(&f.pats)))
                    .set("kind", J::s(w.kind.name()))
                    .set("variant", J::s(vname))
                    .set("fillers", J::s(json::show(&fills)))
                    .set("cores", J::i(cs.len() as i64))
                    .set("example_core", J::s(json::show(&cs[cs.len() / 2])))
                    .set("template", J::s(format!("filler^i . core . filler^j, i in 0..={}, j in {:?}, total <= {}", imax(mask, t), js(t), 2 * V + 8))),
            );
        }
    });
    {
        run_c06_huge(rep);
        run_c06_construction(rep);
    }
    let ev = rep.get("searches");
    let cov = J::obj()
        .set("evaluations", J::i(ev.max(1)))
        .set("distinct_nontrivial", J::i(rep.get("haystacks_with_match")))
        .set("rule", J::s("for every packed variant (Rabin-Karp, slim Teddy 128, slim Teddy 256, fat Teddy 256, default heuristics; fingerprint length = min(4, shortest pattern)) x leftmost-first/longest x pattern family x core (all strings <= 2/3 over the family alphabet, each pattern, pattern.pattern, prefix.pattern, suffix.pattern, every one-byte near miss) x filler (clean, low-nybble decoy, high-nybble decoy) x every offset i x tail j: find_in on the whole haystack and on 5 span forms (every span for short haystacks in thorough) and find_iter, compared with SPEC leftmost selection over the occurrence set; plus six lists with a 65535 / 65536 / 65539-byte pattern and its 8-byte prefix (both orders) on four haystacks, every variant; plus stray templates (a single second/third/fourth-byte look-alike early in the haystack, clean filler, a pattern at every offset up to three vector widths, long tails); plus the construction contract: 14 lists (incl. an empty pattern first / middle / last, 64..300 patterns) x 7 ways of obtaining a searcher (Searcher::new, builder(), config(), add one by one, Default impls, toggled force options): either no searcher is returned or it agrees with SPEC for the whole list; Builder::len / minimum_len / match_kind. A haystack is non-trivial when it contains at least one occurrence"))
        .set("variants_exercised", J::i(rep.set_len("variants_exercised") as i64))
        .set("exhaustive", J::Bool(true))
        .set("bounds", J::s(format!("total haystack length <= {}; offsets 0..={}; vector width considered {}", 2 * V + 8, imax(4, t), V)))
        .set("design_ref", J::s("4, 7 (C06)"));
    if ev == 0 && rep.nviol() == 0 {
        rep.machinery("vacuous run".into());
    }
    if rep.set_len("variants_exercised") < 13 {
        rep.note(format!("only {} packed variants were built on this CPU", rep.set_len("variants_exercised")));
    }
    rep.finish(
        "exploration",
        cov,
        &[
            "occurrences of a haystack filler^i.core.filler^j are those of the core shifted by i because no filler byte occurs in any pattern (asserted by construction; the lemma's implementation is cross-checked against the fully naive SPEC on every case of the small families)",
            "the CPU running the check supports SSSE3 and AVX2 (otherwise fewer variants are built; recorded)",
        ],
    )
}

fn show_short(h: &[u8]) -> String {
    if h.len() <= 120 {
        json::show(h)
    } else {
        format!("{}...({} bytes)...{}", json::show(&h[..48]), h.len(), json::show(&h[h.len() - 24..]))
    }
}

/// Pattern lengths around 2^16 (lengths and orders kept in 16-bit fields):
/// a short pattern that is a prefix of a 65535 / 65536 / 65539-byte one, in
/// both orders, two more patterns so that the packed prefilter is selected.
pub fn huge_lists() -> Vec<(String, Pats)> {
    let mut v = vec![];
    for n in [65535usize, 65536, 65539] {
        let mut long = b("needle01");
        long.extend((0..n - 8).map(|i| b'g' + (i % 5) as u8));
        v.push((format!("huge{}-short-first", n), vec![b("needle01"), long.clone(), b("cdcdcd"), b("efefef")]));
        v.push((format!("huge{}-long-first", n), vec![long, b("needle01"), b("cdcdcd"), b("efefef")]));
    }
    v
}

fn huge_haystacks(pats: &Pats) -> Vec<Vec<u8>> {
    let long = pats.iter().max_by_key(|p| p.len()).unwrap();
    let mut v = vec![];
    for pad in [0usize, 1, 17] {
        let mut h = vec![b'.'; pad];
        h.extend_from_slice(long);
        h.extend_from_slice(b"..cdcdcd.");
        v.push(h);
    }
    // the long pattern cut one byte short, then the short one
    let mut h = vec![b'.'; 3];
    h.extend_from_slice(&long[..long.len() - 1]);
    h.extend_from_slice(b".needle01");
    v.push(h);
    v
}

fn run_c06_huge(rep: &Report) {
    let lists = huge_lists();
    let mut items = vec![];
    for l in 0..lists.len() {
        for kind in [Kind::LF, Kind::LL] {
            for var in PVar::ALL {
                items.push((l, kind, var));
            }
        }
    }
    let desc = |i: usize| format!("{} {} {}", lists[items[i].0].0, items[i].1.name(), items[i].2.name());
    par_for_desc(rep, items.len(), &desc, |ix, st| {
        let (l, kind, var) = items[ix];
        let (name, pats) = (&lists[l].0, &lists[l].1);
        let spec = Spec::new(pats.clone(), false);
        {
            {
                let sr = match catch_unwind(AssertUnwindSafe(|| build_packed(pats, kind, var))) {
                    Ok(Some(s)) => s,
                    Ok(None) => return,
                    Err(p) => {
                        rep.violation(Violation {
                            property: rep.property.clone(),
                            what: "packed-build-panic".into(),
                            case: packed_case(pats, kind, var, &[], 0, 0, "build"),
                            detail: format!("{} {} {}: build panicked: {}", name, kind.name(), var.name(), crate::aut::panic_msg(&p)),
                            tags: vec![],
                        });
                        return;
                    }
                };
                for h in huge_haystacks(pats) {
                    let exp = spec.find(kind, &h, 0, h.len(), false);
                    let got = catch_unwind(AssertUnwindSafe(|| sr.find(&h).map(mm)));
                    st.add("searches", 1);
                    st.add("huge_pattern_searches", 1);
                    if got.as_ref().ok() != Some(&exp) {
                        rep.violation(Violation {
                            property: rep.property.clone(),
                            what: "packed-find-mismatch".into(),
                            case: packed_case(pats, kind, var, &h, 0, h.len(), "find"),
                            detail: format!("{} {} {}: find(\"{}\"): got {:?}, SPEC {:?}", name, kind.name(), var.name(), show_short(&h), got.map_err(|p| crate::aut::panic_msg(&p)), exp),
                            tags: vec![("variant".into(), var.name().into()), ("kind".into(), kind.name().into())],
                        });
                    }
                    let exp_it = spec.iter(kind, &h, 0, h.len(), false);
                    let got_it = catch_unwind(AssertUnwindSafe(|| sr.find_iter(&h).take(64).map(mm).collect::<Vec<M>>()));
                    st.add("searches", 1);
                    if got_it.as_ref().ok() != Some(&exp_it) {
                        rep.violation(Violation {
                            property: rep.property.clone(),
                            what: "packed-iter-mismatch".into(),
                            case: packed_case(pats, kind, var, &h, 0, h.len(), "find_iter"),
                            detail: format!("{} {} {}: find_iter(\"{}\"): got {:?}, SPEC {:?}", name, kind.name(), var.name(), show_short(&h), got_it.map_err(|p| crate::aut::panic_msg(&p)), exp_it),
                            tags: vec![("variant".into(), var.name().into()), ("kind".into(), kind.name().into())],
                        });
                    }
                }
            }
        }
    });
}

/// The construction side of C06: whatever way a packed searcher is obtained,
/// and whatever the pattern list (also lists the packed searcher does not
/// support: an empty pattern, more than 128 patterns), the outcome is either
/// "no searcher" or a searcher that agrees with SPEC for the WHOLE list.
fn run_c06_construction(rep: &Report) {
    let mut lists: Vec<(String, Pats)> = vec![
        ("normal".into(), vec![b("foo"), b("bar"), b("baz"), b("quux")]),
        ("empty-first".into(), vec![b(""), b("foo"), b("bar")]),
        ("empty-middle".into(), vec![b("foo"), b(""), b("bar")]),
        ("empty-last".into(), vec![b("foo"), b("bar"), b("")]),
        ("empty-only".into(), vec![b("")]),
        ("empty-twice".into(), vec![b("foo"), b(""), b("bar"), b(""), b("baz")]),
    ];
    for n in [64usize, 65, 127, 128, 129, 130, 200, 300] {
        lists.push((format!("n{}", n), (0..n).map(|i| format!("{}{:03}x", (b'a' + (i % 23) as u8) as char, i).into_bytes()).collect()));
    }
    let forms = ["Config::new().builder().extend", "Searcher::new", "Searcher::builder().extend", "Builder::new().add one by one", "Builder::default + Config::default", "Searcher::config() with only_teddy(true) then only_teddy(false)", "only_rabin_karp(true) then only_rabin_karp(false)"];
    let mut items = vec![];
    for l in 0..lists.len() {
        for kind in [Kind::LF, Kind::LL] {
            for f in 0..forms.len() {
                items.push((l, kind, f));
            }
        }
    }
    let desc = |i: usize| format!("construction {} {} {}", lists[items[i].0].0, items[i].1.name(), forms[items[i].2]);
    par_for_desc(rep, items.len(), &desc, |ix, st| {
        let (l, kind, f) = items[ix];
        let (name, pats) = (&lists[l].0, &lists[l].1);
        let mk = if kind == Kind::LL { packed::MatchKind::LeftmostLongest } else { packed::MatchKind::LeftmostFirst };
        if f == 1 && kind == Kind::LL {
            return; // Searcher::new has no match kind parameter (leftmost-first)
        }
        let built = catch_unwind(AssertUnwindSafe(|| -> (Option<packed::Searcher>, Option<(usize, usize)>) {
            match f {
                0 => {
                    let mut c = packed::Config::new();
                    c.match_kind(mk);
                    let mut bl = c.builder();
                    bl.extend(pats.iter());
                    (bl.build(), Some((bl.len(), bl.minimum_len())))
                }
                1 => (packed::Searcher::new(pats.iter()), None),
                2 => {
                    let mut c = packed::Searcher::config();
                    c.match_kind(mk);
                    let mut bl = c.builder();
                    bl.extend(pats.iter());
                    (bl.build(), None)
                }
                3 => {
                    let mut c = packed::Config::new();
                    c.match_kind(mk);
                    let mut bl = c.builder();
                    for p in pats.iter() {
                        bl.add(p);
                    }
                    (bl.build(), Some((bl.len(), bl.minimum_len())))
                }
                4 => {
                    let mut c = packed::Config::default();
                    c.match_kind(mk);
                    let mut bl = c.builder();
                    bl.extend(pats.iter());
                    (bl.build(), None)
                }
                5 => {
                    let mut c = packed::Searcher::config();
                    c.match_kind(mk).only_teddy(true).only_teddy(false);
                    let mut bl = c.builder();
                    bl.extend(pats.iter());
                    (bl.build(), None)
                }
                _ => {
                    let mut c = packed::Config::new();
                    c.match_kind(mk).only_rabin_karp(true).only_rabin_karp(false);
                    let mut bl = c.builder();
                    bl.extend(pats.iter());
                    (bl.build(), None)
                }
            }
        }));
        st.add("constructions", 1);
        let mut bad = |what: &str, h: &[u8], detail: String| {
            rep.violation(Violation {
                property: rep.property.clone(),
                what: what.into(),
                case: packed_case(pats, kind, PVar::Default, h, 0, h.len(), "construction").set("form", J::i(f as i64)).set("list", J::s(name.clone())),
                detail: format!("{} {} via {}: {}", name, kind.name(), forms[f], detail),
                tags: vec![("kind".into(), kind.name().into())],
            });
        };
        let (sr, meta) = match built {
            Ok(x) => x,
            Err(p) => {
                bad("packed-build-panic", &[], format!("construction panicked: {}", crate::aut::panic_msg(&p)));
                return;
            }
        };
        let supported = pats.len() <= 128 && pats.iter().all(|p| !p.is_empty());
        if let (Some((len, minlen)), true) = (meta, supported) {
            if len != pats.len() || minlen != pats.iter().map(|p| p.len()).min().unwrap_or(0) {
                bad("packed-builder-metadata", &[], format!("Builder::len() = {}, minimum_len() = {} for {} patterns with shortest {}", len, minlen, pats.len(), pats.iter().map(|p| p.len()).min().unwrap_or(0)));
            }
        }
        let sr = match sr {
            Some(s) => s,
            None => {
                st.add("constructions_declined", 1);
                return;
            }
        };
        if *sr.match_kind() != mk && f != 1 {
            bad("packed-match-kind", &[], format!("match_kind() reports {:?}, configured {:?}", sr.match_kind(), mk));
        }
        let spec = Spec::new(pats.clone(), false);
        let mut hays: Vec<Vec<u8>> = vec![vec![], b("foo"), b("xxfoobar"), b("..................................................")];
        let mut all = vec![];
        for p in pats.iter().take(40) {
            all.extend_from_slice(p);
            all.push(b'.');
        }
        hays.push(all);
        for p in [&pats[0], &pats[pats.len() - 1], &pats[pats.len() / 2]] {
            let mut h = vec![b'.'; 37];
            h.extend_from_slice(p);
            h.extend_from_slice(b"...");
            hays.push(h);
        }
        for h in &hays {
            let exp = spec.find(kind, h, 0, h.len(), false);
            let got = catch_unwind(AssertUnwindSafe(|| sr.find(h).map(mm)));
            st.add("searches", 1);
            if got.as_ref().ok() != Some(&exp) {
                bad("packed-find-mismatch", h, format!("a searcher WAS built; find(\"{}\"): got {:?}, SPEC for the whole list {:?}", show_short(h), got.map_err(|p| crate::aut::panic_msg(&p)), exp));
                return;
            }
            let exp_it = spec.iter(kind, h, 0, h.len(), false);
            let got_it = catch_unwind(AssertUnwindSafe(|| sr.find_iter(h).take(h.len() + 2).map(mm).collect::<Vec<M>>()));
            st.add("searches", 1);
            if got_it.as_ref().ok() != Some(&exp_it) {
                bad("packed-iter-mismatch", h, format!("a searcher WAS built; find_iter(\"{}\"): got {:?}, SPEC for the whole list {:?}", show_short(h), got_it.map_err(|p| crate::aut::panic_msg(&p)), exp_it));
                return;
            }
        }
    });
}

fn run_c05_huge(rep: &Report) {
    let lists = huge_lists();
    let mut items = vec![];
    for l in 0..lists.len() {
        for kind in [Kind::LF, Kind::LL, Kind::Std] {
            items.push((l, kind));
        }
    }
    let desc = |i: usize| format!("{} {}", lists[items[i].0].0, items[i].1.name());
    par_for_desc(rep, items.len(), &desc, |ix, st| {
        let (l, kind) = items[ix];
        let (name, pats) = (&lists[l].0, &lists[l].1);
        {
            let ak = AhoCorasickKind::NoncontiguousNFA;
            let (on, off) = match (build_ac(pats, kind, false, ak, true), build_ac(pats, kind, false, ak, false)) {
                (Ok(a), Ok(b2)) => (a, b2),
                (a, b2) => {
                    rep.violation(Violation {
                        property: rep.property.clone(),
                        what: "build-failed".into(),
                        case: ac_case("prefilter", pats, kind, false, ak, &[], 0, 0, false),
                        detail: format!("{}: build failed: {:?} / {:?}", name, a.err(), b2.err()),
                        tags: vec![],
                    });
                    return;
                }
            };
            for h in huge_haystacks(pats) {
                aho_corasick::verif::reset_counters();
                let a = observe(&on, kind, &h, 0, h.len(), false);
                let c = aho_corasick::verif::counters();
                let b2 = observe(&off, kind, &h, 0, h.len(), false);
                st.add("comparisons", 1);
                st.add("huge_pattern_comparisons", 1);
                if c.prefilter_calls > 0 {
                    st.add("comparisons_where_prefilter_ran", 1);
                }
                if a != b2 {
                    rep.violation(Violation {
                        property: rep.property.clone(),
                        what: "prefilter-changes-result".into(),
                        case: ac_case("prefilter", pats, kind, false, ak, &h, 0, h.len(), false),
                        detail: format!("{} {} nnfa: \"{}\": prefilter on vs off: {}", name, kind.name(), show_short(&h), obs_diff(&a, &b2)),
                        tags: vec![("kind".into(), kind.name().into())],
                    });
                }
            }
        }
    });
}

fn packed_case(pats: &Pats, kind: Kind, var: PVar, h: &[u8], s: usize, e: usize, api: &str) -> J {
    J::obj()
        .set("engine", J::s("packed"))
        .set("patterns", pats_j(pats))
        .set("patterns_shown", J::s(pats_show(pats)))
        .set("kind", J::s(kind.name()))
        .set("variant", J::s(var.name()))
        .set("api", J::s(api))
        .set("haystack", J::s(json::hex(h)))
        .set("haystack_shown", J::s(json::show(h)))
        .set("span", J::Arr(vec![J::i(s as i64), J::i(e as i64)]))
}

pub fn replay_packed(case: &J) -> i32 {
    if case.str_of("api") == "construction" {
        let rep = Report::new("C06", "quick");
        run_c06_construction(&rep);
        println!("construction contract re-run (list {}): {} violation(s)", case.str_of("list"), rep.nviol());
        return (rep.nviol() > 0) as i32;
    }
    let pats = crate::report::pats_from_j(case.get("patterns").unwrap_or(&J::Null));
    let kind = Kind::from_name(&case.str_of("kind"));
    let var = PVar::from_name(&case.str_of("variant"));
    let h = json::unhex(&case.str_of("haystack"));
    let span = case.get("span").and_then(|s| s.as_arr()).map(|a| (a[0].as_usize().unwrap_or(0), a[1].as_usize().unwrap_or(0))).unwrap_or((0, h.len()));
    println!("patterns={} kind={} variant={} haystack=\"{}\" span={}..{}", pats_show(&pats), kind.name(), var.name(), json::show(&h), span.0, span.1);
    let sr = match build_packed(&pats, kind, var) {
        Some(s) => s,
        None => {
            println!("variant not available");
            return 2;
        }
    };
    let spec = Spec::new(pats.clone(), false);
    if case.str_of("api") == "find_iter" {
        let got = catch_unwind(AssertUnwindSafe(|| sr.find_iter(&h).take(h.len() + 2).map(mm).collect::<Vec<M>>()));
        let exp = spec.iter(kind, &h, 0, h.len(), false);
        println!("observed: {:?}\nSPEC:     {:?}", got.as_ref().map_err(|p| crate::aut::panic_msg(p)), exp);
        return if got.ok() == Some(exp) { 0 } else { 1 };
    }
    let got = if case.str_of("api") == "find" {
        catch_unwind(AssertUnwindSafe(|| sr.find(&h).map(mm)))
    } else {
        catch_unwind(AssertUnwindSafe(|| sr.find_in(&h, Span { start: span.0, end: span.1 }).map(mm)))
    };
    let exp = spec.find(kind, &h, span.0, span.1, false);
    println!("observed: {:?}\nSPEC:     {:?}", got.as_ref().map_err(|p| crate::aut::panic_msg(p)), exp);
    if got.ok() == Some(exp) {
        0
    } else {
        1
    }
}

// ---------------------------------------------------------------- C05

#[derive(Clone)]
pub struct PFam {
    pub name: String,
    pub pats: Pats,
    pub ci: bool,
    pub alpha: Vec<u8>,
}

fn pfam(name: &str, pats: Vec<Vec<u8>>, ci: bool) -> PFam {
    let f = fam(name, pats);
    PFam { name: name.to_string(), pats: f.pats, ci, alpha: f.alpha }
}

/// n prefix-free patterns with many distinct start bytes and lengths 4..=6
/// (the packed prefilter's pattern-count thresholds: 16, 64, 128).
fn pfam_n(name: &str, n: usize) -> PFam {
    let pats: Pats = (0..n)
        .map(|i| {
            let mut p = vec![b'b' + (i % 20) as u8, [b'q', b'x', b'j', b'v', b'w'][i % 5], b'0' + ((i / 20) % 10) as u8, b'0' + (i % 10) as u8];
            p.extend(std::iter::repeat(b'z').take(i % 3));
            p
        })
        .collect();
    let mut f = pfam(name, pats, false);
    f.alpha = vec![b'b', b'0', b'k'];
    f
}

/// n patterns k000x, k001x, ... (one start byte, many rare bytes).
fn pfam_k(name: &str, n: usize) -> PFam {
    let pats: Pats = (0..n).map(|i| format!("k{:03}x", i).into_bytes()).collect();
    let mut f = pfam(name, pats, false);
    f.alpha = vec![b'k', b'0', b'x'];
    f
}

/// A long pattern e^k z (its only rare byte at offset k) next to a short
/// pattern with another rare byte: the rare-byte prefilter's offset table
/// holds u8 shifts, and patterns of >= 256 bytes switch that prefilter off.
fn pfam_long(name: &str, k: usize) -> PFam {
    let mut p = vec![b'e'; k];
    p.push(b'z');
    pfam(name, vec![p, b("ttttq")], false)
}

/// Families with a pattern longer than 128 bytes get a reduced set of cores
/// and template offsets (each search walks the whole haystack).
pub fn is_long_family(pats: &Pats) -> bool {
    pats.iter().any(|p| p.len() > 128)
}

/// Families aimed at each prefilter variant (memmem, start bytes 1/2/3, rare
/// bytes 1/2/3, packed) and at "no prefilter"; several per variant so that a
/// change of the selection heuristics moves coverage instead of removing it.
pub fn prefilter_families() -> Vec<PFam> {
    vec![
        pfam("memmem-abc", vec![b("abc")], false),
        pfam("memmem-a", vec![b("a")], false),
        pfam("memmem-abcabd", vec![b("abcabd")], false),
        pfam("memmem-aab", vec![b("aab")], false),
        pfam("memmem-ab", vec![b("ab")], false),
        pfam("memmem-aa", vec![b("aa")], false),
        pfam("start1-ab-ac", vec![b("ab"), b("ac")], false),
        pfam("start1-a-ab", vec![b("a"), b("ab")], false),
        pfam("start1-abc-ab", vec![b("abc"), b("ab"), b("abd")], false),
        pfam("start2-ab-cd", vec![b("ab"), b("cd")], false),
        pfam("start2-ab-ba", vec![b("ab"), b("ba"), b("bb")], false),
        pfam("start3-a-bq-cz", vec![b("a"), b("bq"), b("cz")], false),
        pfam("start3-a-b-c", vec![b("a"), b("b"), b("c")], false),
        pfam("rare1-ez", vec![b("ez"), b(" z"), b("tz")], false),
        pfam("rare1-long", vec![b("eeeez"), b("tttze"), b("  z  ")], false),
        pfam("rare2-zq", vec![b("ez"), b("tq"), b(" zq")], false),
        pfam("rare2-off", vec![b("eeez"), b("tq"), b(" q")], false),
        pfam("rare3-zqj", vec![b("z"), b("eq"), b("tj"), b(" j")], false),
        pfam("rare3-long", vec![b("eez"), b("ttq"), b("  j"), b("a")], false),
        pfam("packed-5", vec![b("foo"), b("bar"), b("baz"), b("quux"), b("zap")], false),
        pfam("packed-3x3", vec![b("ab"), b("cd"), b("ef")], false),
        pfam("packed-overlap", vec![b("abcd"), b("bc"), b("cdx"), b("dab")], false),
        pfam("packed-prefix", vec![b("ab"), b("abc"), b("bcd"), b("cda")], false),
        pfam("packed-dups", vec![b("foo"), b("foo"), b("bar"), b("barq"), b("bar"), b("quux"), b("zap"), b("quux")], false),
        pfam("packed-shadowed", vec![b("sam"), b("samwise"), b("frodo"), b("gandalf"), b("pippin")], false),
        pfam("packed-shadowed-2", vec![b("ab"), b("abc"), b("cd"), b("ef"), b("gh"), b("cde")], false),
        pfam("packed-mask4", vec![b("abcd"), b("wxyz"), b("mnop"), b("qrst"), b("efgh")], false),
        pfam("packed-mask4-overlap", vec![b("abcdab"), b("cdabcd"), b("bcda"), b("dabc"), b("wxyz")], false),
        pfam("start-mixed-nonascii", vec![b("foo"), "ñandú".as_bytes().to_vec()], false),
        pfam("start-mixed-nonascii-2", vec!["über".as_bytes().to_vec(), b("unter"), b("um")], false),
        pfam("start-nonascii-only", vec![vec![0xC3, 0xA9, b't'], vec![0xE2, 0x82, 0xAC]], false),
        pfam("packed-nonascii", vec![vec![0xE9, b't', 0xE9], vec![b'n', b'a', 0xEF, b'v', b'e'], vec![0xFC, b'b', b'e', b'r'], vec![b'z', b'z', 0x80, b'z'], vec![0xFF, 0xFE, b'q']], false),
        pfam("rare-nonascii", vec![vec![b'e', 0xFF], vec![b' ', 0xFF], vec![b't', 0xFF, b'e']], false),
        // the ends of the byte range among two / three rare bytes
        pfam("rare2-ff", vec![vec![b'e', 0xFF], b("tq")], false),
        pfam("rare3-ff", vec![vec![b'e', 0xFF], b("tq"), b(" j")], false),
        pfam("rare2-00", vec![vec![b'e', 0x00], b("tq")], false),
        pfam("rare-ff-start", vec![vec![0xFF, 0xD8, 0xFF], vec![0x89, b'P', b'N', b'G', b'\r', b'\n']], false),
        pfam("start2-ff-00", vec![vec![0xFF, b'a'], vec![0x00, b'b']], false),
        pfam("start3-ff-fe-00", vec![vec![0xFF, b'a'], vec![0x00, b'b'], vec![0xFE, b'c']], false),
        // pattern counts around 256 and 512 (8-bit counters)
        pfam_k("n256-k", 256),
        pfam_k("n257-k", 257),
        pfam_k("n513-k", 513),
        pfam("n20-minlen1", { let mut p: Pats = vec![b("q")]; p.extend((1..20usize).map(|i| vec![b'A' + i as u8, b'a', b'0' + (i % 10) as u8])); p }, false),
        pfam_n("n17-packed", 17),
        pfam_n("n65-packed", 65),
        pfam_n("n129-packed", 129),
        pfam_n("n140-packed", 140),
        // long patterns around the 256-byte limits of the rare-byte offset
        // table: rare byte at offset 253..=257 and 300, a long pattern in
        // the middle of the list, exactly 256 bytes
        pfam_long("long-rare-253", 253),
        pfam_long("long-rare-254", 254),
        pfam_long("long-rare-255", 255),
        pfam_long("long-rare-256", 256),
        pfam_long("long-rare-257", 257),
        pfam_long("long-rare-300", 300),
        pfam("long-mid-256", vec![b("foo"), vec![b'b'; 256], b("quux")], false),
        pfam("long-mid-300-rare-late", vec![b("#define"), { let mut p: Vec<u8> = b("the quick brown fox ").iter().cycle().take(280).cloned().collect(); p.extend_from_slice(b"#42"); p }], false),
        pfam("long-single-256", vec![b("ab").iter().cycle().take(256).cloned().collect()], false),
        pfam("ci-long-single-256", vec![b("ab").iter().cycle().take(256).cloned().collect()], true),
        pfam("ci-long-first-256", vec![b("ab").iter().cycle().take(256).cloned().collect(), b("xy"), b("qr"), b("jk"), b("vw")], true),
        pfam("ci-letterfree-first", vec![b("@"), b("["), b("`"), b("{"), b("xy")], true),
        // case-insensitive lists whose start-byte set (both cases counted)
        // has exactly three members, all patterns of length >= 2
        pfam("ci-one-letterfree-first", vec![b("2024"), b("error")], true),
        pfam("ci-one-letterfree-first-2", vec![b("@"), b("a"), b("bc")], true),
        pfam("ci-start3-letter-nonletter", vec![b("foo"), b("_bar")], true),
        pfam("ci-start3-nonletters", vec![b("<div"), b("&nbsp;"), b("#id")], true),
        pfam("ci-start3-rare4", vec![b("sam"), b("sauron"), b("shire"), b("1ring")], true),
        pfam("ci-start3-digit-first", vec![b("1st"), b("quux"), b("zebra")], true),
        pfam("ci-rare-offset", vec![b("aq"), b("bbbbq"), b("ccq")], true),
        pfam("ci-rare-offset-2", vec![b("zA"), b("eeeZa"), b("ttza")], true),
        pfam("ci-start", vec![b("ab"), b("ac")], true),
        pfam("ci-start2", vec![b("ab"), b("Cd")], true),
        pfam("ci-rare", vec![b("ez"), b(" Z"), b("Tz")], true),
        pfam("ci-mixed", vec![b("aB"), b("Ab"), b("b@")], true),
        pfam("ci-single", vec![b("abc")], true),
        pfam("none-many-starts", (0..8u8).map(|i| vec![b'a' + i, b'a' + i]).collect(), true),
    ]
}

/// Further families used by C05 only (not fed to the E1 universes): a
/// pattern listed directly after one of its proper extensions / before it,
/// with the longer one's rare byte beyond the end of the shorter one.
pub fn c05_extra_families() -> Vec<PFam> {
    vec![
        pfam("ext-then-prefix", vec![b("status_z"), b("status")], false),
        pfam("prefix-then-ext", vec![b("status"), b("status_z")], false),
        pfam("ext-then-prefix-3", vec![b("eeeez"), b("eeee"), b("tq")], false),
        pfam("ext-then-prefix-chain", vec![b("etaq"), b("eta"), b("et"), b(" j")], false),
        pfam("ext-prefix-ext", vec![b("tez"), b("te"), b("teq")], false),
        pfam("ci-ext-then-prefix", vec![b("STATUS_Z"), b("status")], true),
        pfam("ci-prefix-then-ext", vec![b("Status"), b("sTATUS_q")], true),
        pfam("same-then-same", vec![b("ez"), b("ez"), b("tq")], false),
        // the last ASCII byte (0x7F) and its neighbours among one / two /
        // three start bytes (start-byte prefilters are ASCII-only)
        pfam("start2-del", vec![vec![0x7F, b'a', b'b'], b("foo")], false),
        pfam("start1-del", vec![vec![0x7F, b'a'], vec![0x7F, b'b']], false),
        pfam("start3-del-7e", vec![vec![0x7F, b'a'], vec![0x7E, b'b'], b("cq")], false),
        pfam("start2-7e", vec![vec![0x7E, b'a'], b("foo")], false),
        pfam("start2-80", vec![vec![0x80, b'a'], b("foo")], false),
        pfam("start2-nul", vec![vec![0x00, b'a'], b("foo")], false),
        pfam("start3-nul-del", vec![vec![0x00, b'a'], vec![0x7F, b'a'], vec![0x01, b'a']], false),
    ]
}

const AKINDS: [AhoCorasickKind; 3] = [AhoCorasickKind::NoncontiguousNFA, AhoCorasickKind::ContiguousNFA, AhoCorasickKind::DFA];

fn akind_name(k: AhoCorasickKind) -> &'static str {
    match k {
        AhoCorasickKind::NoncontiguousNFA => "nnfa",
        AhoCorasickKind::ContiguousNFA => "cnfa",
        AhoCorasickKind::DFA => "dfa",
        _ => "?",
    }
}

fn akind_from(s: &str) -> AhoCorasickKind {
    match s {
        "cnfa" => AhoCorasickKind::ContiguousNFA,
        "dfa" => AhoCorasickKind::DFA,
        _ => AhoCorasickKind::NoncontiguousNFA,
    }
}

fn build_ac(pats: &Pats, kind: Kind, ci: bool, ak: AhoCorasickKind, pre: bool) -> Result<AhoCorasick, String> {
    catch_unwind(AssertUnwindSafe(|| {
        AhoCorasick::builder()
            .match_kind(kind.ac())
            .ascii_case_insensitive(ci)
            .kind(Some(ak))
            .prefilter(pre)
            .start_kind(aho_corasick::StartKind::Both)
            .build(pats)
            .map_err(|e| e.to_string())
    }))
    .unwrap_or_else(|p| Err(format!("PANIC: {}", crate::aut::panic_msg(&p))))
}

/// The searches compared between two configurations of one searcher.
#[derive(Clone, Debug, PartialEq, Eq)]
pub struct Obs {
    find: Result<Option<M>, String>,
    iter: Result<Vec<M>, String>,
    earliest_some: Result<bool, String>,
    is_match: Result<bool, String>,
    overlapping: Result<Vec<M>, String>,
    /// stepwise overlapping search on one OverlappingState until it reports
    /// no match, plus two further calls (a match after "no match" is recorded
    /// with a marker so that it differs from any legitimate list)
    overlapping_steps: Result<Vec<M>, String>,
}

impl Obs {
    pub fn find_result(&self) -> Result<Option<M>, String> {
        self.find.clone()
    }
    pub fn iter_result(&self) -> Vec<M> {
        self.iter.clone().unwrap_or_default()
    }
}

pub fn observe(ac: &AhoCorasick, kind: Kind, h: &[u8], s: usize, e: usize, anchored: bool) -> Obs {
    fn g<T>(f: impl FnOnce() -> Result<T, String>) -> Result<T, String> {
        catch_unwind(AssertUnwindSafe(f)).unwrap_or_else(|p| Err(format!("PANIC: {}", crate::aut::panic_msg(&p))))
    }
    let inp = || Input::new(h).span(s..e).anchored(if anchored { Anchored::Yes } else { Anchored::No });
    Obs {
        find: g(|| ac.try_find(inp()).map(|o| o.map(mm)).map_err(|e| e.to_string())),
        iter: g(|| Ok(ac.try_find_iter(inp()).map_err(|e| e.to_string())?.take(2 * h.len() + 4).map(mm).collect())),
        earliest_some: g(|| ac.try_find(inp().earliest(true)).map(|o| o.is_some()).map_err(|e| e.to_string())),
        is_match: g(|| Ok(ac.is_match(inp()))),
        overlapping: if kind == Kind::Std && !anchored {
            g(|| Ok(ac.try_find_overlapping_iter(inp()).map_err(|e| e.to_string())?.take(8 * h.len() + 16).map(mm).collect()))
        } else {
            Ok(vec![])
        },
        overlapping_steps: if kind == Kind::Std {
            g(|| {
                let mut st = aho_corasick::automaton::OverlappingState::start();
                let mut v = vec![];
                let mut after = 0usize;
                for _ in 0..8 * h.len() + 16 {
                    ac.try_find_overlapping(inp(), &mut st).map_err(|e| e.to_string())?;
                    match st.get_match() {
                        Some(m) => {
                            if after > 0 {
                                v.push((usize::MAX, after, 0));
                            }
                            v.push(mm(m));
                        }
                        None => {
                            after += 1;
                            if after > 2 {
                                break;
                            }
                        }
                    }
                }
                Ok(v)
            })
        } else {
            Ok(vec![])
        },
    }
}

fn obs_diff(a: &Obs, b2: &Obs) -> String {
    let mut v = vec![];
    if a.find != b2.find {
        v.push(format!("find: {:?} vs {:?}", a.find, b2.find));
    }
    if a.iter != b2.iter {
        v.push(format!("find_iter: {:?} vs {:?}", a.iter, b2.iter));
    }
    if a.earliest_some != b2.earliest_some {
        v.push(format!("earliest existence: {:?} vs {:?}", a.earliest_some, b2.earliest_some));
    }
    if a.is_match != b2.is_match {
        v.push(format!("is_match: {:?} vs {:?}", a.is_match, b2.is_match));
    }
    if a.overlapping != b2.overlapping {
        v.push(format!("overlapping: {:?} vs {:?}", a.overlapping, b2.overlapping));
    }
    if a.overlapping_steps != b2.overlapping_steps {
        v.push(format!("stepwise overlapping (incl. calls past the end): {:?} vs {:?}", a.overlapping_steps, b2.overlapping_steps));
    }
    v.join("; ")
}

fn ac_case(engine_mode: &str, pats: &Pats, kind: Kind, ci: bool, ak: AhoCorasickKind, h: &[u8], s: usize, e: usize, anchored: bool) -> J {
    J::obj()
        .set("engine", J::s("acdiff"))
        .set("mode", J::s(engine_mode))
        .set("patterns", pats_j(pats))
        .set("patterns_shown", J::s(pats_show(pats)))
        .set("kind", J::s(kind.name()))
        .set("ci", J::Bool(ci))
        .set("ackind", J::s(akind_name(ak)))
        .set("haystack", J::s(json::hex(h)))
        .set("haystack_shown", J::s(json::show(h)))
        .set("span", J::Arr(vec![J::i(s as i64), J::i(e as i64)]))
        .set("anchored", J::Bool(anchored))
}

/// cores for prefilter families: as for packed, plus two cores separated by a
/// gap (trigger byte alone before a true match at every small distance).
fn pcores(f: &PFam, thorough: bool) -> Vec<Vec<u8>> {
    if is_long_family(&f.pats) {
        let fl = clean_filler(&f.pats);
        let sig = universe::sigma(&f.pats, f.ci);
        let mut v: Vec<Vec<u8>> = vec![];
        for p in f.pats.iter().take(5) {
            v.push(p.clone());
            let mut pp = p.clone();
            pp.extend_from_slice(p);
            v.push(pp);
            for k in [0, p.len() / 2, p.len() - 1] {
                let mut nm = p.clone();
                nm[k] ^= 0x01;
                v.push(nm);
            }
            for &c in sig.iter().take(3) {
                for d in [0usize, 1, 5] {
                    let mut x = vec![c];
                    x.extend(std::iter::repeat(fl).take(d));
                    x.extend_from_slice(p);
                    v.push(x);
                }
            }
            for &c in sig.iter().take(3) {
                for d in [0usize, 1, 5] {
                    let mut x = p.clone();
                    x.extend(std::iter::repeat(fl).take(d));
                    x.push(c);
                    v.push(x);
                }
            }
            for q in f.pats.iter().take(5) {
                // an occurrence of p, a gap, an occurrence of q
                let mut x = p.clone();
                x.extend(std::iter::repeat(fl).take(3));
                x.extend_from_slice(q);
                v.push(x);
            }
            if f.ci {
                let up: Vec<u8> = p.iter().map(|&x| crate::spec::opposite(x)).collect();
                v.push(up);
                let mut mix = p.clone();
                mix[0] = crate::spec::opposite(mix[0]);
                v.push(mix);
                let mut mix = p.clone();
                let l = mix.len() - 1;
                mix[l] = crate::spec::opposite(mix[l]);
                v.push(mix);
            }
        }
        let _ = thorough;
        v.sort();
        v.dedup();
        return v;
    }
    let base = Fam { name: f.name.clone(), pats: f.pats.clone(), alpha: f.alpha.clone() };
    let mut v = cores(&base, thorough);
    let fl = clean_filler(&f.pats);
    let sig = universe::sigma(&f.pats, f.ci);
    let gaps: Vec<usize> = if thorough { (0..=V + 1).collect() } else { vec![0, 1, 2, 3, 4, 5, 15, 16, 17] };
    for p in f.pats.iter().take(4) {
        for &c in sig.iter().take(6) {
            for &d in &gaps {
                let mut x = vec![c];
                x.extend(std::iter::repeat(fl).take(d));
                x.extend_from_slice(p);
                v.push(x);
                // ... and the trigger byte at the same distances AFTER it
                let mut y = p.clone();
                y.extend(std::iter::repeat(fl).take(d));
                y.push(c);
                v.push(y);
            }
        }
        if f.ci {
            let up: Vec<u8> = p.iter().map(|&x| crate::spec::opposite(x)).collect();
            v.push(up.clone());
            let mut mix = p.clone();
            mix[0] = crate::spec::opposite(mix[0]);
            v.push(mix);
        }
    }
    v.sort();
    v.dedup();
    v
}

pub fn run_c05(rep: &Report) -> i32 {
    let t = rep.thorough();
    let mut fams = prefilter_families();
    fams.extend(c05_extra_families());
    struct W {
        f: usize,
        kind: Kind,
        ak: AhoCorasickKind,
    }
    let mut items = vec![];
    for f in 0..fams.len() {
        for kind in Kind::ALL {
            for ak in AKINDS {
                items.push(W { f, kind, ak });
            }
        }
    }
    let desc = |i: usize| format!("{} {} {}", fams[items[i].f].name, items[i].kind.name(), akind_name(items[i].ak));
    par_for_desc(rep, items.len(), &desc, |ix, st| {
        let w = &items[ix];
        let f = &fams[w.f];
        let on = build_ac(&f.pats, w.kind, f.ci, w.ak, true);
        let off = build_ac(&f.pats, w.kind, f.ci, w.ak, false);
        let (on, off) = match (on, off) {
            (Ok(a), Ok(b2)) => (a, b2),
            (a, b2) => {
                rep.violation(Violation {
                    property: rep.property.clone(),
                    what: "build-failed".into(),
                    case: ac_case("prefilter", &f.pats, w.kind, f.ci, w.ak, &[], 0, 0, false),
                    detail: format!("{}: build failed: {:?} / {:?}", f.name, a.err(), b2.err()),
                    tags: vec![],
                });
                return;
            }
        };
        // which prefilter did the heuristics select? (recorded, never judged)
        let low = crate::aut::build(&f.pats, w.kind, f.ci, crate::aut::Cfg { rep: crate::aut::Rep::N { dd: 3 }, pre: true });
        let pname = low.map(|s| s.prefilter_name()).unwrap_or_else(|_| "?".into());
        rep.set_add("prefilter_variants_selected", pname.clone());
        rep.set_add("family_to_prefilter", format!("{}:{}={}", f.name, w.kind.name(), pname));
        let fills = vec![clean_filler(&f.pats)];
        let cs = pcores(f, t);
        let mask = f.pats.iter().map(|p| p.len()).min().unwrap().min(4);
        let mut spans = vec![];
        let step = if f.pats.len() > 24 && !t { 4 } else { 1 };
        let long = is_long_family(&f.pats);
        for core in cs.iter().step_by(step) {
            st.add("cores", 1);
            templates(core, &fills, mask, t, |h, i, _| {
                if long {
                    let j = h.len() - i - core.len();
                    if !([0usize, 1, 2, 3, 15, 16, 17, 32, 33].contains(&i) && [0usize, 1, 17].contains(&j)) {
                        return;
                    }
                }
                span_forms(h.len(), i, core.len(), false, &mut spans);
                for &(s, e) in &spans {
                    for anchored in [false, true] {
                        if anchored && !(s == i || s == 0) {
                            continue;
                        }
                        aho_corasick::verif::reset_counters();
                        let a = observe(&on, w.kind, h, s, e, anchored);
                        let c = aho_corasick::verif::counters();
                        st.add("prefilter_calls", c.prefilter_calls);
                        let b2 = observe(&off, w.kind, h, s, e, anchored);
                        st.add("comparisons", 1);
                        if c.prefilter_calls > 0 {
                            st.add("comparisons_where_prefilter_ran", 1);
                        }
                        if a != b2 {
                            rep.violation(Violation {
                                property: rep.property.clone(),
                                what: "prefilter-changes-result".into(),
                                case: ac_case("prefilter", &f.pats, w.kind, f.ci, w.ak, h, s, e, anchored),
                                detail: format!(
                                    "{} {} {} ci={} {} (prefilter {}): \"{}\"[{}..{}] anchored={}: prefilter on vs off: {}",
                                    f.name, pats_show(&f.pats), w.kind.name(), f.ci, akind_name(w.ak), pname, json::show(h), s, e, anchored, obs_diff(&a, &b2)
                                ),
                                tags: vec![("prefilter".into(), pname.clone()), ("kind".into(), w.kind.name().into())],
                            });
                        }
                    }
                }
            });
        }
        if rep.nsamples() < 4 && ix % 29 == 3 {
            rep.sample(
                J::obj()
                    .set("family", J::s(f.name.clone()))
                    .set("patterns", J::s(pats_show(&f.pats)))
                    .set("kind", J::s(w.kind.name()))
                    .set("ci", J::Bool(f.ci))
                    .set("automaton", J::s(akind_name(w.ak)))
                    .set("prefilter_selected", J::s(pname))
                    .set("cores", J::i(cs.len() as i64))
                    .set("example_core", J::s(json::show(&cs[cs.len() / 2]))),
            );
        }
    });
    {
        run_c05_huge(rep);
    }
    let ev = rep.get("comparisons");
    let cov = J::obj()
        .set("evaluations", J::i(ev.max(1)))
        .set("distinct_nontrivial", J::i(rep.get("comparisons_where_prefilter_ran")))
        .set("rule", J::s("for every prefilter-targeting family (memmem, start bytes 1/2/3, rare bytes 1/2/3, packed, case-insensitive variants) x match kind x automaton kind: the same searcher built with prefilter(true) and prefilter(false) must agree on try_find, find_iter, is_match, existence of an earliest match and the overlapping iterator, for every haystack filler^i.core.filler^j (cores incl. trigger byte at every small distance before and after a true match), 5 span forms, unanchored and anchored; plus six lists with a 65535 / 65536 / 65539-byte pattern and its 8-byte prefix on four haystacks (nNFA). A comparison is non-trivial when the prefilter was actually invoked (hook counter)"))
        .set("prefilter_variants_selected", J::Arr(rep.set_members("prefilter_variants_selected").into_iter().map(J::s).collect()))
        .set("exhaustive", J::Bool(true))
        .set("bounds", J::s(format!("total haystack length <= {}; offsets 0..={}", 2 * V + 8, imax(4, t))))
        .set("design_ref", J::s("4, 7 (C05)"));
    if ev == 0 && rep.nviol() == 0 {
        rep.machinery("vacuous run".into());
    }
    let sel = rep.set_members("prefilter_variants_selected");
    for want in ["Memmem", "StartBytesOne", "StartBytesTwo", "StartBytesThree", "RareBytesOne", "RareBytesTwo", "RareBytesThree", "Packed"] {
        if !sel.iter().any(|s| s == want) {
            rep.note(format!("warning: no family selected the {} prefilter in this run (heuristics changed?)", want));
        }
    }
    rep.finish(
        "exploration",
        cov,
        &[
            "the oracle is the same searcher with the prefilter disabled (differential), so defects of the automaton itself do not raise alarms here",
            "an earliest search is compared on existence only: which occurrence it returns is specified by C14 only up to 'ends no later than the normal match'",
            "which prefilter a family selects is read from Debug output and recorded, never judged",
        ],
    )
}

// ---------------------------------------------------------------- C10

fn hostile(pats: &Pats, h: &[u8], s: usize, e: usize, variant: usize) -> Vec<u8> {
    // replace every byte outside [s, e) by pattern material, so that matches
    // crossing the span boundary and outside the span exist
    let mut stream: Vec<u8> = vec![];
    for p in pats.iter().cycle().take(pats.len().max(1) * 4) {
        stream.extend_from_slice(p);
        if stream.len() > 64 {
            break;
        }
    }
    if stream.is_empty() {
        stream.push(b'a');
    }
    let mut out = h.to_vec();
    let n = stream.len();
    for k in 0..h.len() {
        if k < s.min(h.len()) {
            // right-align the stream against s so that a pattern ends just inside / at s
            let d = (s - k + variant) % n;
            out[k] = stream[(n - d) % n];
        } else if k >= e && k >= s {
            out[k] = stream[(k - e + variant) % stream.len()];
        }
    }
    out
}

pub fn run_c10(rep: &Report) -> i32 {
    let t = rep.thorough();
    {
        let mut st = Stats::default();
        check_input_forms(rep, &mut st);
        rep.merge(&st);
    }
    // part A: automata, every span of every short haystack, all APIs, both anchoring modes
    let mut lists: Vec<(Pats, bool)> = universe::u0().into_iter().map(|l| (l, false)).collect();
    for (_, l) in universe::uadv(false).into_iter().filter(|(n, _)| ["empty-middle", "samwise", "overlap-abab", "suffixes-rot0", "a^3b", "dups-mixed"].contains(&n.as_str())) {
        lists.push((l, false));
    }
    if t {
        lists.extend(universe::u1().into_iter().skip(56).map(|l| (l, false)));
    }
    for f in prefilter_families() {
        lists.push((f.pats, f.ci));
    }
    struct W {
        l: usize,
        kind: Kind,
    }
    let mut items = vec![];
    for l in 0..lists.len() {
        for kind in Kind::ALL {
            items.push(W { l, kind });
        }
    }
    let pf = packed_families();
    let n_a = items.len();
    let desc = |i: usize| if i < n_a { format!("list {} {}", pats_show(&lists[items[i].l].0), items[i].kind.name()) } else { format!("packed item {}", i - n_a) };
    let packed_items: Vec<(usize, Kind, PVar)> =
        (0..pf.len()).flat_map(|f| [Kind::LF, Kind::LL].into_iter().flat_map(move |k| PVar::ALL.into_iter().map(move |v| (f, k, v)))).collect();
    par_for_desc(rep, n_a + packed_items.len(), &desc, |ix, st| {
        if ix < n_a {
            let w = &items[ix];
            let (pats, ci) = &lists[w.l];
            for ak in AKINDS {
                for pre in [true, false] {
                    let ac = match build_ac(pats, w.kind, *ci, ak, pre) {
                        Ok(a) => a,
                        Err(e) => {
                            rep.violation(Violation { property: rep.property.clone(), what: "build-failed".into(), case: ac_case("span", pats, w.kind, *ci, ak, &[], 0, 0, false), detail: e, tags: vec![] });
                            continue;
                        }
                    };
                    let alpha = universe::hay_alpha(pats, *ci);
                    let n = universe::len_for_budget(alpha.len(), if t { 1100 } else { 130 }, 6);
                    for h in universe::strings(&alpha, n) {
                        let len = h.len();
                        for s in 0..=len {
                            for e in s.saturating_sub(1)..=len {
                                for anchored in [false, true] {
                                    check_span(rep, st, &ac, pats, w.kind, *ci, ak, &h, s, e, anchored);
                                }
                            }
                        }
                    }
                    // long haystacks for prefilter families: core at vector-relevant offsets
                    if w.l >= lists.len() - prefilter_families().len() && pre {
                        let fl = clean_filler(pats);
                        for core in pats.iter().take(3) {
                            templates(core, &[fl], 4, false, |h, i, _| {
                                if i % 3 != 0 && i < V - 2 {
                                    return;
                                }
                                for (s, e) in [(i, h.len()), (0, i + core.len()), (i, i + core.len()), (i + 1, h.len()), (i.saturating_sub(1), i + core.len() - 1), (h.len(), h.len() - 1.min(h.len()))] {
                                    if s <= e + 1 && e <= h.len() && s <= h.len() {
                                        check_span(rep, st, &ac, pats, w.kind, *ci, ak, h, s, e, false);
                                    }
                                }
                            });
                        }
                    }
                }
            }
        } else {
            // part B: packed searchers: span vs sub-slice, hostile outside bytes
            let (fi, kind, var) = packed_items[ix - n_a];
            let f = &pf[fi];
            let sr = match catch_unwind(AssertUnwindSafe(|| build_packed(&f.pats, kind, var))) {
                Ok(Some(s)) => s,
                _ => return,
            };
            let fl = clean_filler(&f.pats);
            let mask = f.pats.iter().map(|p| p.len()).min().unwrap().min(4);
            let cs: Vec<Vec<u8>> = cores(f, false).into_iter().filter(|c| !c.is_empty()).collect();
            let mut spans = vec![];
            for core in cs.iter().step_by(if t { 1 } else { 3 }) {
                templates(core, &[fl], mask, false, |h, i, _| {
                    span_forms(h.len(), i, core.len(), false, &mut spans);
                    for &(s, e) in &spans {
                        if s > e {
                            continue;
                        }
                        let r = catch_unwind(AssertUnwindSafe(|| {
                            let a = sr.find_in(h, Span { start: s, end: e }).map(mm);
                            let sub = sr.find_in(&h[s..e], Span { start: 0, end: e - s }).map(mm).map(|(p, x, y)| (p, x + s, y + s));
                            let hh = hostile(&f.pats, h, s, e, 0);
                            let c = sr.find_in(&hh, Span { start: s, end: e }).map(mm);
                            (a, sub, c)
                        }));
                        st.add("comparisons", 1);
                        let bad = match &r {
                            Ok((a, sub, c)) => a != sub || a != c || a.map_or(false, |m| m.1 < s || m.2 > e),
                            Err(_) => true,
                        };
                        if bad {
                            rep.violation(Violation {
                                property: rep.property.clone(),
                                what: "packed-span-vs-subslice".into(),
                                case: packed_case(&f.pats, kind, var, h, s, e, "span"),
                                detail: format!(
                                    "{} {} {}: find_in(\"{}\", {}..{}) / sub-slice shifted / hostile outside bytes: {:?}",
                                    f.name, kind.name(), var.name(), json::show(h), s, e, r.map_err(|p| crate::aut::panic_msg(&p))
                                ),
                                tags: vec![("variant".into(), var.name().into())],
                            });
                        }
                    }
                });
            }
        }
    });
    rep.sample(J::obj().set("patterns", J::s("[\"ab\",\"b\"]")).set("haystack", J::s("abab")).set("spans", J::s("every 0<=s<=e<=4 and s=e+1; e.g. [1..3]: result must equal the result on \"ba\" shifted by 1, also after the outside bytes are replaced: \"babb\" / \"bbaa\"")).set("apis", J::s("try_find, find_iter, is_match, earliest, overlapping; unanchored and anchored; prefilter on/off; nNFA, cNFA, DFA")));
    rep.sample(J::obj().set("packed_family", J::s("m4-tail-12")).set("haystack", J::s("filler^i . core . filler^j")).set("spans", J::s("(0,n) (i,n) (0,i+|core|) (i,i+|core|) (i+1,n) (0,i+|core|-1)")));
    let ev = rep.get("comparisons");
    let cov = J::obj()
        .set("evaluations", J::i(ev.max(1)))
        .set("distinct_nontrivial", J::i(rep.get("nontrivial_spans")))
        .set("rule", J::s("part A: pattern lists (all lists of <= 2 patterns over {a,b} len <= 2, adversarial lists, every prefilter family incl. case-insensitive) x 3 match kinds x 3 automaton kinds x prefilter on/off: for every haystack over sigma(P)+bottom up to the budgeted length and EVERY span 0<=s<=e<=len plus s=e+1, unanchored and anchored: (1) result on (haystack, span) == result on the sub-slice shifted by s, for try_find, find_iter, is_match, earliest existence and overlapping; (2) identical result after replacing every byte outside the span by hostile pattern material (two alignments); (3) every match inside the span. Long haystacks with the core at vector-relevant offsets for prefilter families. part B: every packed variant: find_in span == sub-slice shifted == hostile outside. part C: every way of stating the span (span, range with every bound kind, set_span, set_range, set_start/set_end in both orders, also starting from a narrowed Input) on haystack lengths 0..=5 and every valid (s, e) incl. s=e+1 gives the same Input (accessors, is_done) and the same find result; Span / Match accessors. A span is non-trivial when it is a proper sub-span and the search inside it finds a match"))
        .set("exhaustive", J::Bool(true))
        .set("bounds", J::s("automata: haystack length <= 6 (budgeted by alphabet size), all spans; vector paths: total length <= 72, 6 span forms per template"))
        .set("design_ref", J::s("4, 7 (C10)"));
    if ev == 0 && rep.nviol() == 0 {
        rep.machinery("vacuous run".into());
    }
    rep.finish(
        "exploration",
        cov,
        &["the oracle is the same searcher on the sub-slice (differential); anchored searches on the sub-slice start at 0"],
    )
}

fn shift_obs(o: &Obs, s: usize) -> Obs {
    let sh = |m: M| (m.0, m.1 + s, m.2 + s);
    Obs {
        find: o.find.clone().map(|x| x.map(sh)),
        iter: o.iter.clone().map(|v| v.into_iter().map(sh).collect()),
        earliest_some: o.earliest_some.clone(),
        is_match: o.is_match.clone(),
        overlapping: o.overlapping.clone().map(|v| v.into_iter().map(sh).collect()),
        overlapping_steps: o.overlapping_steps.clone().map(|v| v.into_iter().map(|m| if m.0 == usize::MAX { m } else { sh(m) }).collect()),
    }
}

fn check_span(rep: &Report, st: &mut Stats, ac: &AhoCorasick, pats: &Pats, kind: Kind, ci: bool, ak: AhoCorasickKind, h: &[u8], s: usize, e: usize, anchored: bool) {
    let a = observe(ac, kind, h, s, e, anchored);
    st.add("comparisons", 1);
    let mut problems = vec![];
    if s > e {
        // start one past end: no match of any kind
        let empty = Obs { find: Ok(None), iter: Ok(vec![]), earliest_some: Ok(false), is_match: Ok(false), overlapping: Ok(vec![]), overlapping_steps: Ok(vec![]) };
        if a != empty {
            problems.push(format!("start = end + 1 must yield no match, got {:?}", a));
        }
    } else {
        let sub = shift_obs(&observe(ac, kind, &h[s..e], 0, e - s, anchored), s);
        if a != sub {
            problems.push(format!("span vs sub-slice: {}", obs_diff(&a, &sub)));
        }
        if s > 0 || e < h.len() {
            if let Ok(Some(_)) = a.find {
                st.add("nontrivial_spans", 1);
            }
            for variant in 0..2 {
                let hh = hostile(pats, h, s, e, variant);
                let c = observe(ac, kind, &hh, s, e, anchored);
                st.add("comparisons", 1);
                if a != c {
                    problems.push(format!("bytes outside the span changed (\"{}\"): {}", json::show(&hh), obs_diff(&a, &c)));
                    break;
                }
            }
        }
        let inside = |m: &M| m.1 >= s && m.2 <= e;
        if let Ok(Some(m)) = &a.find {
            if !inside(m) {
                problems.push(format!("match {:?} outside the span", m));
            }
        }
        if let Ok(v) = &a.iter {
            if v.iter().any(|m| !inside(m)) {
                problems.push(format!("iterator match outside the span: {:?}", v));
            }
        }
    }
    if !problems.is_empty() {
        rep.violation(Violation {
            property: rep.property.clone(),
            what: "span-not-subslice".into(),
            case: ac_case("span", pats, kind, ci, ak, h, s, e, anchored).set("prefilter", J::Bool(true)),
            detail: format!("{} {} ci={} {}: \"{}\"[{}..{}] anchored={}: {}", pats_show(pats), kind.name(), ci, akind_name(ak), json::show(h), s, e, anchored, problems.join(" | ")),
            tags: vec![("kind".into(), kind.name().into())],
        });
    }
}

/// Every way the public API offers to say "search haystack[s..e]" must
/// describe the same search: `span`, `range` with every kind of bound,
/// `set_span`, `set_range`, `set_start` + `set_end` in both orders. Also the
/// accessors of `Input`, `Span` and `Match` that callers use to interpret a
/// result. Exhaustive over haystack lengths 0..=5 and every valid (s, e),
/// including s = e + 1.
pub fn check_input_forms(rep: &Report, st: &mut Stats) {
    use std::ops::Bound;
    let pats: Pats = vec![b("ab"), b("b"), b("")];
    let ac = match build_ac(&pats, Kind::Std, false, AhoCorasickKind::NoncontiguousNFA, true) {
        Ok(a) => a,
        Err(e) => {
            rep.machinery(format!("input forms: build failed: {}", e));
            return;
        }
    };
    let full = b("ababb");
    let describe = |i: &Input<'_>| -> String {
        format!(
            "start={} end={} span={:?} range={:?} done={} anchored={:?} earliest={} find={:?} is_match={} earliest-find={:?}",
            i.start(), i.end(), i.get_span(), i.get_range(), i.is_done(), i.get_anchored(), i.get_earliest(),
            ac.try_find(i.clone()).map(|o| o.map(mm)).map_err(|e| e.to_string()),
            ac.is_match(i.clone()),
            ac.try_find(i.clone().earliest(true)).map(|o| o.map(mm)).map_err(|e| e.to_string())
        )
    };
    let mut bad = |form: &str, h: &[u8], s: usize, e: usize, got: String, want: &str| {
        rep.violation(Violation {
            property: rep.property.clone(),
            what: "input-form-differs".into(),
            case: ac_case("input-forms", &pats, Kind::Std, false, AhoCorasickKind::NoncontiguousNFA, h, s, e, false),
            detail: format!("Input for \"{}\"[{}..{}] built with {}: {} but span(Span{{start,end}}) gives {}", json::show(h), s, e, form, got, want),
            tags: vec![],
        });
    };
    for n in 0..=full.len() {
        let h = &full[..n];
        for s in 0..=n + 1 {
            for e in s.saturating_sub(1)..=n {
                if s > e + 1 || s > n + 1 || (s == n + 1 && e != n) {
                    continue;
                }
                let reference = match catch_unwind(AssertUnwindSafe(|| describe(&Input::new(h).span(Span { start: s, end: e })))) {
                    Ok(r) => r,
                    Err(p) => {
                        bad("span(Span{start,end})", h, s, e, format!("PANIC {}", crate::aut::panic_msg(&p)), "(a valid span)");
                        continue;
                    }
                };
                if (s > e) != reference.contains("done=true") {
                    bad("is_done", h, s, e, reference.clone(), "is_done() == (start > end)");
                }
                let want_prefix = format!("start={} end={} span={}..{} range={}..{} ", s, e, s, e, s, e);
                if !reference.starts_with(&want_prefix) {
                    bad("accessors", h, s, e, reference.clone(), &want_prefix);
                }
                let mut forms: Vec<(&str, Box<dyn Fn() -> String + '_>)> = vec![];
                forms.push(("set_span", Box::new(|| { let mut i = Input::new(h); i.set_span(Span { start: s, end: e }); describe(&i) })));
                forms.push(("set_end then set_start", Box::new(|| { let mut i = Input::new(h); i.set_end(e); i.set_start(s); describe(&i) })));
                forms.push(("set_start then set_end", Box::new(|| { let mut i = Input::new(h); if s <= n { i.set_start(s); i.set_end(e); } else { i.set_end(e); i.set_start(s); } describe(&i) })));
                forms.push(("From<&H> + set_span", Box::new(|| { let mut i: Input<'_> = Input::from(h); i.set_span(Span { start: s, end: e }); describe(&i) })));
                if s <= e {
                    forms.push(("span(s..e)", Box::new(|| describe(&Input::new(h).span(s..e)))));
                    forms.push(("range(s..e)", Box::new(|| describe(&Input::new(h).range(s..e)))));
                    forms.push(("set_range(s..e)", Box::new(|| { let mut i = Input::new(h); i.set_range(s..e); describe(&i) })));
                    forms.push(("range((Included(s), Excluded(e)))", Box::new(|| describe(&Input::new(h).range((Bound::Included(s), Bound::Excluded(e)))))));
                    if e > s {
                        forms.push(("range(s..=e-1)", Box::new(|| describe(&Input::new(h).range(s..=e - 1)))));
                        forms.push(("set_range(s..=e-1)", Box::new(|| { let mut i = Input::new(h); i.set_range(s..=e - 1); describe(&i) })));
                    }
                    if s > 0 {
                        forms.push(("range((Excluded(s-1), Excluded(e)))", Box::new(|| describe(&Input::new(h).range((Bound::Excluded(s - 1), Bound::Excluded(e)))))));
                    }
                    if s == 0 {
                        forms.push(("range(..e)", Box::new(|| describe(&Input::new(h).range(..e)))));
                        if e > 0 {
                            forms.push(("range(..=e-1)", Box::new(|| describe(&Input::new(h).range(..=e - 1)))));
                        }
                    }
                    if e == n {
                        forms.push(("range(s..)", Box::new(|| describe(&Input::new(h).range(s..)))));
                        forms.push(("set_range(s..)", Box::new(|| { let mut i = Input::new(h); i.set_range(s..); describe(&i) })));
                    }
                    // unbounded sides refer to the haystack, not to the span set before
                    let k = 1.min(n);
                    if s == 0 {
                        forms.push(("span(k..k) then set_range(..e)", Box::new(move || { let mut i = Input::new(h).span(k..k); i.set_range(..e); describe(&i) })));
                        forms.push(("span(k..k) then range(..e)", Box::new(move || describe(&Input::new(h).span(k..k).range(..e)))));
                    }
                    if e == n {
                        forms.push(("span(k..k) then set_range(s..)", Box::new(move || { let mut i = Input::new(h).span(k..k); i.set_range(s..); describe(&i) })));
                        forms.push(("span(k..k) then range(s..)", Box::new(move || describe(&Input::new(h).span(k..k).range(s..)))));
                    }
                    if s == 0 && e == n {
                        forms.push(("span(k..k) then range(..)", Box::new(move || describe(&Input::new(h).span(k..k).range(..)))));
                        forms.push(("range(..)", Box::new(|| describe(&Input::new(h).range(..)))));
                        forms.push(("Input::new alone", Box::new(|| describe(&Input::new(h)))));
                    }
                }
                for (name, f) in &forms {
                    st.add("input_forms", 1);
                    let got = catch_unwind(AssertUnwindSafe(|| f())).unwrap_or_else(|p| format!("PANIC {}", crate::aut::panic_msg(&p)));
                    if got != reference {
                        bad(name, h, s, e, got, &reference);
                    }
                }
                // flags survive changing the span and vice versa
                let got = catch_unwind(AssertUnwindSafe(|| {
                    let mut i = Input::new(h).anchored(Anchored::Yes).earliest(true);
                    i.set_span(Span { start: s, end: e });
                    let a = (i.get_anchored().is_anchored(), i.get_earliest(), i.start(), i.end());
                    let mut j = Input::new(h).span(Span { start: s, end: e });
                    j.set_anchored(Anchored::Yes);
                    j.set_earliest(true);
                    let b2 = (j.get_anchored().is_anchored(), j.get_earliest(), j.start(), j.end());
                    (a, b2)
                }));
                st.add("input_forms", 1);
                // ... also through the by-value builders, flags stated first
                let by_value = catch_unwind(AssertUnwindSafe(|| {
                    let mut v = vec![];
                    let i = Input::new(h).anchored(Anchored::Yes).earliest(true).span(Span { start: s, end: e });
                    v.push(("anchored().earliest().span()", (i.get_anchored().is_anchored(), i.get_earliest(), i.start(), i.end())));
                    let i = Input::new(h).earliest(true).span(Span { start: s, end: e }).anchored(Anchored::Yes);
                    v.push(("earliest().span().anchored()", (i.get_anchored().is_anchored(), i.get_earliest(), i.start(), i.end())));
                    if s <= e {
                        let i = Input::new(h).anchored(Anchored::Yes).earliest(true).range(s..e);
                        v.push(("anchored().earliest().range()", (i.get_anchored().is_anchored(), i.get_earliest(), i.start(), i.end())));
                        let mut i = Input::new(h).anchored(Anchored::Yes).earliest(true);
                        i.set_range(s..e);
                        v.push(("anchored().earliest() + set_range", (i.get_anchored().is_anchored(), i.get_earliest(), i.start(), i.end())));
                        let mut i = Input::new(h).anchored(Anchored::Yes).earliest(true);
                        i.set_end(e);
                        i.set_start(s);
                        v.push(("anchored().earliest() + set_end + set_start", (i.get_anchored().is_anchored(), i.get_earliest(), i.start(), i.end())));
                        let i = Input::new(h).anchored(Anchored::Yes).span(s..e).earliest(true).anchored(Anchored::No);
                        v.push(("anchored(Yes).span().earliest().anchored(No)", (!i.get_anchored().is_anchored(), i.get_earliest(), i.start(), i.end())));
                    }
                    v
                }));
                match by_value {
                    Ok(v) => {
                        for (name, t) in v {
                            st.add("input_forms", 1);
                            if t != (true, true, s, e) {
                                bad(name, h, s, e, format!("(anchored as stated, earliest, start, end) = {:?}", t), "anchored, earliest and the span are independent of the order in which they are stated");
                            }
                        }
                    }
                    Err(p) => bad("flags then span (by value)", h, s, e, format!("PANIC {}", crate::aut::panic_msg(&p)), "no panic for a valid span"),
                }
                if got.as_ref().ok() != Some(&((true, true, s, e), (true, true, s, e))) {
                    bad("flags + span", h, s, e, format!("{:?}", got.map_err(|p| crate::aut::panic_msg(&p))), "anchored, earliest and the span are independent");
                }
                // Span and Match accessors
                if s <= e {
                    let sp = Span { start: s, end: e };
                    let m = aho_corasick::Match::must(1, s..e);
                    let m2 = aho_corasick::Match::new(aho_corasick::PatternID::must(1), sp);
                    let mut ok = sp.range() == (s..e) && sp.len() == e - s && sp.is_empty() == (s == e) && sp.offset(3) == Span { start: s + 3, end: e + 3 } && sp == (s..e);
                    ok &= std::ops::Range::<usize>::from(sp) == (s..e) && Span::from(s..e) == sp;
                    ok &= m == m2 && m.pattern().as_usize() == 1 && m.start() == s && m.end() == e && m.range() == (s..e) && m.span() == sp && m.len() == e - s && m.is_empty() == (s == e);
                    let mo = m.offset(2);
                    ok &= mo.start() == s + 2 && mo.end() == e + 2 && mo.pattern().as_usize() == 1;
                    st.add("input_forms", 1);
                    if !ok {
                        bad("Span / Match accessors", h, s, e, format!("{:?} {:?} {:?}", sp, m, mo), "start/end/range/span/len/is_empty/offset as documented");
                    }
                }
            }
        }
    }
}

/// Match lists with about 2^16 entries in ONE state (counts kept in 16-bit
/// fields would wrap): n copies of "ab"; and "ab" followed by n copies of
/// "b" (the state of "ab" inherits them through its failure link). Standard
/// semantics, every automaton kind: the overlapping iterator and the stepwise
/// search must list every pattern id exactly once, in supply order.
pub fn check_huge_match_lists(rep: &Report) {
    let mut items = vec![];
    let ns: Vec<usize> = if rep.thorough() { vec![65535, 65536, 65537, 131072] } else { vec![65536] };
    for n in ns {
        for shape in 0..2 {
            for ak in AKINDS {
                // the noncontiguous NFA walks its match lists by index
                // (quadratic in the list length): quick tier: one shape only
                if ak == AhoCorasickKind::NoncontiguousNFA && ((shape == 1 && !rep.thorough()) || n > 65537) {
                    continue;
                }
                items.push((n, shape, ak));
            }
        }
    }
    let quick_nnfa_iter_only = !rep.thorough();
    let desc = |i: usize| format!("huge match list n={} shape={} {}", items[i].0, items[i].1, akind_name(items[i].2));
    par_for_desc(rep, items.len(), &desc, |ix, st| {
        let (n, shape, ak) = items[ix];
        let mut pats: Pats = vec![];
        if shape == 1 {
            pats.push(b("ab"));
        }
        pats.extend(std::iter::repeat(if shape == 0 { b("ab") } else { b("b") }).take(n));
        let ac = match build_ac(&pats, Kind::Std, false, ak, true) {
            Ok(a) => a,
            Err(e) => {
                rep.violation(Violation { property: rep.property.clone(), what: "build-failed".into(), case: J::obj().set("engine", J::s("acdiff")).set("mode", J::s("huge-match-list")), detail: format!("{} patterns: {}", pats.len(), e), tags: vec![] });
                return;
            }
        };
        let h = b("xabx");
        // expected: shape 0: (i, 1, 3) for i in 0..n; shape 1: (0, 1, 3) then (i, 2, 3) for i in 1..=n
        let expected: Vec<M> = if shape == 0 { (0..n).map(|i| (i, 1, 3)).collect() } else { std::iter::once((0usize, 1usize, 3usize)).chain((1..=n).map(|i| (i, 2, 3))).collect() };
        let hb = std::cell::RefCell::new(&mut *st);
        let got_iter = catch_unwind(AssertUnwindSafe(|| {
            ac.find_overlapping_iter(&h)
                .take(expected.len() + 8)
                .enumerate()
                .map(|(i, m)| {
                    if i % 256 == 0 {
                        hb.borrow_mut().add("huge_steps", 1); // heartbeat: the list walk is quadratic for the nNFA
                    }
                    mm(m)
                })
                .collect::<Vec<M>>()
        }));
        let skip_steps = quick_nnfa_iter_only && ak == AhoCorasickKind::NoncontiguousNFA;
        let got_steps = catch_unwind(AssertUnwindSafe(|| {
            if skip_steps {
                return expected.clone();
            }
            let mut stt = aho_corasick::automaton::OverlappingState::start();
            let mut v = vec![];
            for i in 0..expected.len() + 8 {
                if i % 256 == 0 {
                    hb.borrow_mut().add("huge_steps", 1);
                }
                ac.find_overlapping(&h, &mut stt);
                match stt.get_match() {
                    Some(m) => v.push(mm(m)),
                    None => break,
                }
            }
            v
        }));
        let first = catch_unwind(AssertUnwindSafe(|| ac.find(&h).map(mm)));
        drop(hb);
        st.add("huge_match_list_cases", 1);
        for (api, got) in [("find_overlapping_iter", &got_iter), ("stepwise find_overlapping", &got_steps)] {
            let ok = got.as_ref().ok() == Some(&expected);
            if !ok {
                let summary = match got {
                    Ok(v) => {
                        let firstdiff = v.iter().zip(expected.iter()).position(|(a, b2)| a != b2);
                        format!("{} matches (expected {}), first difference at index {:?}: got {:?}", v.len(), expected.len(), firstdiff, firstdiff.and_then(|i| v.get(i)))
                    }
                    Err(p) => format!("PANIC {}", crate::aut::panic_msg(p)),
                };
                rep.violation(Violation {
                    property: rep.property.clone(),
                    what: "huge-match-list".into(),
                    case: J::obj().set("engine", J::s("acdiff")).set("mode", J::s("huge-match-list")).set("n", J::i(n as i64)).set("shape", J::i(shape as i64)).set("ackind", J::s(akind_name(ak))),
                    detail: format!("{} {} on \"xabx\", {}: {}", if shape == 0 { format!("{} x \"ab\"", n) } else { format!("\"ab\" + {} x \"b\"", n) }, akind_name(ak), api, summary),
                    tags: vec![],
                });
                return;
            }
        }
        if first.as_ref().ok() != Some(&Some((0, 1, 3))) {
            rep.violation(Violation {
                property: rep.property.clone(),
                what: "huge-match-list".into(),
                case: J::obj().set("engine", J::s("acdiff")).set("mode", J::s("huge-match-list")).set("n", J::i(n as i64)).set("shape", J::i(shape as i64)).set("ackind", J::s(akind_name(ak))),
                detail: format!("n={} shape={} {}: find gives {:?}", n, shape, akind_name(ak), first.map_err(|p| crate::aut::panic_msg(&p))),
                tags: vec![],
            });
        }
    });
}

/// Pattern identifiers beyond 2^15 and 2^16 (ids packed into narrow fields):
/// "needle" (id 0), n filler patterns, "haystack-needle" (id n+1): the state of
/// the last pattern lists exactly two ids, a large one and 0.
pub fn check_huge_id_space(rep: &Report) {
    let mut items = vec![];
    for n in [40_000usize, 70_000] {
        for ak in AKINDS {
            if n > 40_000 && ak == AhoCorasickKind::DFA && !rep.thorough() {
                continue;
            }
            items.push((n, ak));
        }
    }
    let desc = |i: usize| format!("huge id space n={} {}", items[i].0, akind_name(items[i].1));
    par_for_desc(rep, items.len(), &desc, |ix, st| {
        let (n, ak) = items[ix];
        let mut pats: Pats = vec![b("needle")];
        pats.extend((1..=n).map(|i| format!("f{:05}q", i).into_bytes()));
        pats.push(b("haystack-needle"));
        let ac = match build_ac(&pats, Kind::Std, false, ak, true) {
            Ok(a) => a,
            Err(e) => {
                rep.violation(Violation { property: rep.property.clone(), what: "build-failed".into(), case: J::obj().set("engine", J::s("acdiff")).set("mode", J::s("huge-match-list")), detail: format!("{} patterns: {}", pats.len(), e), tags: vec![] });
                return;
            }
        };
        let h = b("in a haystack-needle, f00007q f39999q.");
        let last = n + 1;
        let exp_over: Vec<M> = vec![(last, 5, 20), (0, 14, 20), (7, 22, 29), (39_999, 30, 37)];
        let exp_iter: Vec<M> = vec![(last, 5, 20), (7, 22, 29), (39_999, 30, 37)];
        let got_over = catch_unwind(AssertUnwindSafe(|| ac.find_overlapping_iter(&h).take(16).map(mm).collect::<Vec<M>>()));
        let got_iter = catch_unwind(AssertUnwindSafe(|| ac.find_iter(&h).take(16).map(mm).collect::<Vec<M>>()));
        st.add("huge_id_space_cases", 1);
        for (api, got, exp) in [("find_overlapping_iter", &got_over, &exp_over), ("find_iter", &got_iter, &exp_iter)] {
            if got.as_ref().ok() != Some(exp) {
                rep.violation(Violation {
                    property: rep.property.clone(),
                    what: "huge-id-space".into(),
                    case: J::obj().set("engine", J::s("acdiff")).set("mode", J::s("huge-match-list")).set("n", J::i(n as i64)).set("ackind", J::s(akind_name(ak))),
                    detail: format!(
                        "[\"needle\", {} fillers f00001q.., \"haystack-needle\"] {} on \"{}\", {}: got {:?}, expected {:?}",
                        n, akind_name(ak), json::show(&h), api, got.as_ref().map_err(|p| crate::aut::panic_msg(p)), exp
                    ),
                    tags: vec![],
                });
                return;
            }
        }
    });
}

/// Deterministic pseudo-random byte patterns (all 256 byte values, lengths
/// 4..=8): thousands of states within a few bytes of the root, i.e. thousands
/// of dense rows with a 256-class alphabet.
pub fn random_byte_patterns(n: usize) -> Pats {
    let mut x: u64 = 0x9E37_79B9_7F4A_7C15;
    let mut next = move || {
        x ^= x << 13;
        x ^= x >> 7;
        x ^= x << 17;
        x
    };
    let mut seen = std::collections::HashSet::new();
    let mut v = vec![];
    while v.len() < n {
        let len = 4 + (next() % 5) as usize;
        let p: Vec<u8> = (0..len).map(|_| (next() >> 24) as u8).collect();
        if seen.insert(p.clone()) {
            v.push(p);
        }
    }
    v
}

/// 1 500 / 3 000 random byte patterns, standard semantics, every automaton
/// kind: iteration and overlapping iteration over a haystack made of whole
/// patterns, truncated patterns and noise, against the naive SPEC.
pub fn check_many_dense_rows(rep: &Report) {
    let mut items = vec![];
    for n in [1500usize, 3000] {
        for ak in AKINDS {
            items.push((n, ak));
        }
    }
    let desc = |i: usize| format!("many dense rows n={} {}", items[i].0, akind_name(items[i].1));
    par_for_desc(rep, items.len(), &desc, |ix, st| {
        let (n, ak) = items[ix];
        let pats = random_byte_patterns(n);
        let ac = match build_ac(&pats, Kind::Std, false, ak, true) {
            Ok(a) => a,
            Err(e) => {
                rep.violation(Violation { property: rep.property.clone(), what: "build-failed".into(), case: J::obj().set("engine", J::s("acdiff")).set("mode", J::s("huge-match-list")), detail: format!("{} random byte patterns: {}", n, e), tags: vec![] });
                return;
            }
        };
        let spec = Spec::new(pats.clone(), false);
        let mut h: Vec<u8> = vec![];
        // every seventh pattern (all first bytes occur many times), truncated
        // patterns and noise in between
        for k in (0..n).step_by(7).chain([n - 1, n - 2]) {
            h.extend_from_slice(&pats[k]);
            h.extend_from_slice(&pats[(k + 5) % n][..3]);
            h.push((k % 251) as u8);
        }
        let exp_iter = spec.iter(Kind::Std, &h, 0, h.len(), false);
        let exp_over = spec.overlapping(&h, 0, h.len(), false);
        // the same collection through the low-level types' own constructors
        // (their builders build and own the noncontiguous NFA themselves)
        {
            use aho_corasick::automaton::Automaton;
            let low: Result<Vec<M>, String> = catch_unwind(AssertUnwindSafe(|| -> Result<Vec<M>, String> {
                let inp = Input::new(&h);
                match ak {
                    AhoCorasickKind::DFA => aho_corasick::dfa::DFA::new(&pats).map_err(|e| e.to_string())?.try_find_iter(inp).map_err(|e| e.to_string()).map(|it| it.take(h.len() + 2).map(mm).collect()),
                    AhoCorasickKind::ContiguousNFA => aho_corasick::nfa::contiguous::NFA::new(&pats).map_err(|e| e.to_string())?.try_find_iter(inp).map_err(|e| e.to_string()).map(|it| it.take(h.len() + 2).map(mm).collect()),
                    _ => aho_corasick::nfa::noncontiguous::NFA::new(&pats).map_err(|e| e.to_string())?.try_find_iter(inp).map_err(|e| e.to_string()).map(|it| it.take(h.len() + 2).map(mm).collect()),
                }
            }))
            .unwrap_or_else(|p| Err(format!("PANIC {}", crate::aut::panic_msg(&p))));
            st.add("many_dense_rows_cases", 1);
            if low.as_ref().ok() != Some(&exp_iter) {
                rep.violation(Violation {
                    property: rep.property.clone(),
                    what: "many-dense-rows".into(),
                    case: J::obj().set("engine", J::s("acdiff")).set("mode", J::s("huge-match-list")).set("n", J::i(n as i64)).set("ackind", J::s(akind_name(ak))),
                    detail: format!("{} pseudo-random byte patterns, low-level {}::new(patterns), try_find_iter on a {}-byte haystack: got {:?}, SPEC {:?}", n, akind_name(ak), h.len(), low, exp_iter),
                    tags: vec![],
                });
                return;
            }
        }
        let got_iter = catch_unwind(AssertUnwindSafe(|| ac.find_iter(&h).take(h.len() + 2).map(mm).collect::<Vec<M>>()));
        let got_over = catch_unwind(AssertUnwindSafe(|| ac.find_overlapping_iter(&h).take(8 * h.len()).map(mm).collect::<Vec<M>>()));
        st.add("many_dense_rows_cases", 1);
        for (api, got, exp) in [("find_iter", &got_iter, &exp_iter), ("find_overlapping_iter", &got_over, &exp_over)] {
            if got.as_ref().ok() != Some(exp) {
                rep.violation(Violation {
                    property: rep.property.clone(),
                    what: "many-dense-rows".into(),
                    case: J::obj().set("engine", J::s("acdiff")).set("mode", J::s("huge-match-list")).set("n", J::i(n as i64)).set("ackind", J::s(akind_name(ak))),
                    detail: format!("{} pseudo-random byte patterns (len 4..8) {} {} on a {}-byte haystack of patterns, truncated patterns and noise: got {:?}, SPEC {:?}", n, akind_name(ak), api, h.len(), got.as_ref().map_err(|p| crate::aut::panic_msg(p)), exp),
                    tags: vec![],
                });
                return;
            }
        }
    });
}

/// Replay of "acdiff" cases (C05 prefilter differential, C10 span).
pub fn replay_acdiff(case: &J) -> i32 {
    if case.str_of("mode") == "huge-match-list" {
        let rep = Report::new("C03", "quick");
        check_many_dense_rows(&rep);
        check_huge_id_space(&rep);
        check_huge_match_lists(&rep);
        println!("huge match lists re-run: {} violation(s)", rep.nviol());
        return (rep.nviol() > 0) as i32;
    }
    let pats = crate::report::pats_from_j(case.get("patterns").unwrap_or(&J::Null));
    let kind = Kind::from_name(&case.str_of("kind"));
    let ci = case.bool_of("ci");
    let ak = akind_from(&case.str_of("ackind"));
    let h = json::unhex(&case.str_of("haystack"));
    let span = case.get("span").and_then(|s| s.as_arr()).map(|a| (a[0].as_usize().unwrap_or(0), a[1].as_usize().unwrap_or(0))).unwrap_or((0, h.len()));
    let anchored = case.bool_of("anchored");
    println!("patterns={} kind={} ci={} automaton={} haystack=\"{}\" span={}..{} anchored={} mode={}", pats_show(&pats), kind.name(), ci, akind_name(ak), json::show(&h), span.0, span.1, anchored, case.str_of("mode"));
    if case.str_of("mode") == "prefilter" {
        let on = build_ac(&pats, kind, ci, ak, true).unwrap();
        let off = build_ac(&pats, kind, ci, ak, false).unwrap();
        let a = observe(&on, kind, &h, span.0, span.1, anchored);
        let b2 = observe(&off, kind, &h, span.0, span.1, anchored);
        println!("prefilter on:  {:?}\nprefilter off: {:?}", a, b2);
        return if a == b2 { 0 } else { 1 };
    }
    let rep = Report::new("C10", "quick");
    let mut st = Stats::default();
    if case.str_of("mode") == "input-forms" {
        check_input_forms(&rep, &mut st);
        return (rep.nviol() > 0) as i32;
    }
    for pre in [true, false] {
        let ac = build_ac(&pats, kind, ci, ak, pre).unwrap();
        check_span(&rep, &mut st, &ac, &pats, kind, ci, ak, &h, span.0, span.1, anchored);
    }
    if rep.nviol() > 0 {
        1
    } else {
        println!("span search equals sub-slice search on this case");
        0
    }
}
