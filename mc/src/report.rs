//! Collecting violations and statistics, writing evidence and replay files,
//! matching violations against the committed known-findings file.

use crate::json::{self, J};
use std::collections::BTreeMap;
use std::sync::Mutex;
use std::time::Instant;

#[derive(Clone, Debug)]
pub struct Violation {
    pub property: String,
    /// short machine-readable tag, e.g. "find-mismatch"
    pub what: String,
    /// replayable case descriptor (engine specific, has an "engine" key)
    pub case: J,
    /// human readable: expected vs observed
    pub detail: String,
    /// key/value facts used to match known-finding classes
    pub tags: Vec<(String, String)>,
}

pub struct Report {
    pub property: String,
    pub tier: String,
    pub seed: i64,
    pub t0: Instant,
    known: Vec<Known>,
    inner: Mutex<Inner>,
}

#[derive(Default)]
struct Inner {
    violations: Vec<Violation>,
    known_hits: BTreeMap<usize, (Violation, u64)>,
    nviol: u64,
    counters: BTreeMap<String, u64>,
    samples: Vec<J>,
    machinery: Vec<String>,
    sets: BTreeMap<String, std::collections::BTreeSet<String>>,
    notes: Vec<String>,
}

/// Thread-local statistics, merged into the report at the end of a worker.
#[derive(Default, Clone)]
pub struct Stats {
    pub c: BTreeMap<&'static str, u64>,
    /// heartbeat observed by the watchdog of `par_for`
    pub hb: Option<std::sync::Arc<std::sync::atomic::AtomicU64>>,
}

impl Stats {
    #[inline]
    pub fn add(&mut self, k: &'static str, n: u64) {
        *self.c.entry(k).or_insert(0) += n;
        if let Some(h) = &self.hb {
            h.fetch_add(1, std::sync::atomic::Ordering::Relaxed);
        }
    }
}

impl Report {
    pub fn new(property: &str, tier: &str) -> Report {
        let seed = std::env::var("VERIF_SEED").ok().and_then(|s| s.parse().ok()).unwrap_or(0);
        Report {
            property: property.to_string(),
            tier: tier.to_string(),
            seed,
            t0: Instant::now(),
            known: load_known(),
            inner: Mutex::new(Inner::default()),
        }
    }
    pub fn thorough(&self) -> bool {
        self.tier == "thorough"
    }
    pub fn violation(&self, v: Violation) {
        let mut g = self.inner.lock().unwrap();
        g.nviol += 1;
        // violations that belong to a listed known finding are only counted
        // (first example kept), so that they can never crowd out an unlisted
        // one from the bounded store
        if let Some(i) = self.known.iter().position(|k| k.matches(&v)) {
            let e = g.known_hits.entry(i).or_insert((v, 0));
            e.1 += 1;
            return;
        }
        if g.violations.len() < 200 {
            g.violations.push(v);
        }
    }
    pub fn nviol(&self) -> u64 {
        self.inner.lock().unwrap().nviol
    }
    pub fn machinery(&self, msg: String) {
        let mut g = self.inner.lock().unwrap();
        if g.machinery.len() < 20 {
            g.machinery.push(msg);
        }
    }
    pub fn note(&self, msg: String) {
        let mut g = self.inner.lock().unwrap();
        if g.notes.len() < 40 {
            g.notes.push(msg);
        }
    }
    pub fn merge(&self, s: &Stats) {
        let mut g = self.inner.lock().unwrap();
        for (k, v) in &s.c {
            *g.counters.entry(k.to_string()).or_insert(0) += v;
        }
    }
    pub fn count(&self, k: &str, n: u64) {
        let mut g = self.inner.lock().unwrap();
        *g.counters.entry(k.to_string()).or_insert(0) += n;
    }
    pub fn get(&self, k: &str) -> u64 {
        self.inner.lock().unwrap().counters.get(k).copied().unwrap_or(0)
    }
    pub fn sample(&self, j: J) {
        let mut g = self.inner.lock().unwrap();
        if g.samples.len() < 8 {
            g.samples.push(j);
        }
    }
    pub fn nsamples(&self) -> usize {
        self.inner.lock().unwrap().samples.len()
    }
    /// Record a member of a named set (e.g. distinct outcomes, prefilter
    /// variants selected); sets are capped at 10_000 members.
    pub fn set_add(&self, set: &str, member: String) {
        let mut g = self.inner.lock().unwrap();
        let s = g.sets.entry(set.to_string()).or_default();
        if s.len() < 10_000 {
            s.insert(member);
        }
    }
    pub fn set_len(&self, set: &str) -> usize {
        self.inner.lock().unwrap().sets.get(set).map_or(0, |s| s.len())
    }
    pub fn set_members(&self, set: &str) -> Vec<String> {
        self.inner.lock().unwrap().sets.get(set).map_or(vec![], |s| s.iter().cloned().collect())
    }

    /// Write evidence, replay files, print verdict lines; returns exit code.
    pub fn finish(&self, level: &str, mut coverage: J, assumptions: &[&str]) -> i32 {
        let g = self.inner.lock().unwrap();
        let wall = self.t0.elapsed().as_secs_f64();
        // all raw counters go into coverage.counters
        coverage.put("counters", J::Obj(g.counters.iter().map(|(k, v)| (k.clone(), J::i(*v))).collect()));
        if !g.sets.is_empty() {
            coverage.put(
                "sets",
                J::Obj(
                    g.sets
                        .iter()
                        .map(|(k, v)| {
                            (
                                k.clone(),
                                J::obj().set("size", J::i(v.len() as i64)).set(
                                    "members",
                                    J::Arr(v.iter().take(150).map(|m| J::s(m.clone())).collect()),
                                ),
                            )
                        })
                        .collect(),
                ),
            );
        }
        if coverage.get("samples").is_none() {
            coverage.put("samples", J::Arr(g.samples.clone()));
        }
        if !g.notes.is_empty() {
            coverage.put("notes", J::Arr(g.notes.iter().map(|n| J::s(n.clone())).collect()));
        }
        if !g.machinery.is_empty() {
            coverage.put("machinery_errors", J::Arr(g.machinery.iter().map(|n| J::s(n.clone())).collect()));
        }

        // violations of listed known findings were separated on arrival
        let known = &self.known;
        let known_hits = &g.known_hits;
        let mut real: Vec<&Violation> = g.violations.iter().collect();
        real.sort_by_key(|v| v.case.to_string().len());
        let ev = J::obj()
            .set("property_id", J::s(self.property.clone()))
            .set("tier", J::s(self.tier.clone()))
            .set("seed", J::Int(self.seed))
            .set("level", J::s(level))
            .set("coverage", coverage)
            .set("assumptions", J::Arr(assumptions.iter().map(|a| J::s(*a)).collect()))
            .set("wall_s", J::Num(wall))
            .set("violations", J::i(real.len() as i64))
            .set("known_findings_hit", J::i(known_hits.len() as i64));
        let dir = verif_dir();
        let _ = std::fs::create_dir_all(format!("{}/evidence", dir));
        let path = format!("{}/evidence/{}.json", dir, self.property);
        if let Err(e) = std::fs::write(&path, ev.to_pretty()) {
            eprintln!("cannot write evidence {}: {}", path, e);
            return 2;
        }
        for (i, (v, n)) in known_hits.iter() {
            println!(
                "KNOWN-FINDING: property={} {} ({} occurrence(s) in this run; e.g. {})",
                v.property, known[*i].describe(), n, v.detail
            );
        }
        if !g.machinery.is_empty() {
            for m in &g.machinery {
                println!("MACHINERY-ERROR: {}", m);
            }
            // a violation found by a deterministic, individually replayable
            // part of the run stands on its own; otherwise the run is broken
            if real.is_empty() {
                return 2;
            }
        }
        if real.is_empty() {
            println!(
                "OK property={} tier={} wall={:.1}s (evidence: {})",
                self.property, self.tier, wall, path
            );
            return 0;
        }
        let _ = std::fs::create_dir_all(format!("{}/replays", dir));
        // one replay file per distinct `what` (first = shortest by construction)
        let mut seen = std::collections::BTreeSet::new();
        for v in &real {
            if !seen.insert(v.what.clone()) || seen.len() > 5 {
                continue;
            }
            let j = J::obj()
                .set("property", J::s(v.property.clone()))
                .set("what", J::s(v.what.clone()))
                .set("detail", J::s(v.detail.clone()))
                .set("tags", J::Obj(v.tags.iter().map(|(k, x)| (k.clone(), J::s(x.clone()))).collect()))
                .set("case", v.case.clone());
            let text = j.to_pretty();
            let h = fnv(text.as_bytes());
            let rp = format!("{}/replays/{}-{:08x}.json", dir, v.property, h as u32);
            let _ = std::fs::write(&rp, text);
            println!("VIOLATION property={} replay={}", v.property, rp);
            println!("  what={} {}", v.what, v.detail);
        }
        println!("{} violation(s) of {} in this run", g.nviol, self.property);
        1
    }
}

impl Report {
    /// Called by the watchdog when a worker makes no progress: the code under
    /// test does not terminate (or is absurdly slow) on the current work item.
    /// Writes a generic evidence file and a replay file, prints the VIOLATION
    /// line and ends the process with status 1.
    pub fn abort_no_progress(&self, item: usize, secs: u64, what_item: String) -> ! {
        let dir = verif_dir();
        let _ = std::fs::create_dir_all(format!("{}/evidence", dir));
        let _ = std::fs::create_dir_all(format!("{}/replays", dir));
        let wall = self.t0.elapsed().as_secs_f64();
        let ev = J::obj()
            .set("property_id", J::s(self.property.clone()))
            .set("tier", J::s(self.tier.clone()))
            .set("seed", J::Int(self.seed))
            .set("level", J::s("other"))
            .set(
                "coverage",
                J::obj().set(
                    "explanation",
                    J::s(format!(
                        "run aborted by the watchdog: no progress for {} CPU-seconds in work item {} ({}); the code under test does not terminate on a case of this item",
                        secs, item, what_item
                    )),
                ),
            )
            .set("wall_s", J::Num(wall))
            .set("violations", J::Int(1));
        let _ = std::fs::write(format!("{}/evidence/{}.json", dir, self.property), ev.to_pretty());
        let j = J::obj()
            .set("property", J::s(self.property.clone()))
            .set("what", J::s("no-progress"))
            .set("detail", J::s(format!("no progress for {} s in work item {}: {}", secs, item, what_item)))
            .set("case", J::obj().set("engine", J::s("hang")).set("tier", J::s(self.tier.clone())).set("item", J::i(item as i64)).set("item_desc", J::s(what_item.clone())));
        let rp = format!("{}/replays/{}-hang-{}.json", dir, self.property, item);
        let _ = std::fs::write(&rp, j.to_pretty());
        println!("VIOLATION property={} replay={}", self.property, rp);
        println!("  what=no-progress the code under test made no progress for {} CPU-seconds in work item {} ({})", secs, item, what_item);
        std::process::exit(1);
    }
}

impl Report {
    /// Everything collected so far as one JSON document (used by child
    /// processes to hand their findings to the parent).
    pub fn export(&self) -> J {
        let g = self.inner.lock().unwrap();
        J::obj()
            .set(
                "violations",
                J::Arr(
                    g.violations
                        .iter()
                        .map(|v| {
                            J::obj()
                                .set("property", J::s(v.property.clone()))
                                .set("what", J::s(v.what.clone()))
                                .set("detail", J::s(v.detail.clone()))
                                .set("tags", J::Obj(v.tags.iter().map(|(k, x)| (k.clone(), J::s(x.clone()))).collect()))
                                .set("case", v.case.clone())
                        })
                        .collect(),
                ),
            )
            .set("nviol", J::i(g.nviol as i64))
            .set("counters", J::Obj(g.counters.iter().map(|(k, v)| (k.clone(), J::i(*v as i64))).collect()))
            .set("samples", J::Arr(g.samples.clone()))
            .set("machinery", J::Arr(g.machinery.iter().map(|m| J::s(m.clone())).collect()))
            .set("sets", J::Obj(g.sets.iter().map(|(k, v)| (k.clone(), J::Arr(v.iter().map(|m| J::s(m.clone())).collect()))).collect()))
    }
    pub fn import(&self, j: &J) {
        let mut g = self.inner.lock().unwrap();
        if let Some(vs) = j.get("violations").and_then(|v| v.as_arr()) {
            for v in vs {
                let tags = match v.get("tags") {
                    Some(J::Obj(o)) => o.iter().map(|(k, x)| (k.clone(), x.as_str().unwrap_or("").to_string())).collect(),
                    _ => vec![],
                };
                if g.violations.len() < 200 {
                    g.violations.push(Violation {
                        property: v.str_of("property"),
                        what: v.str_of("what"),
                        case: v.get("case").cloned().unwrap_or(J::Null),
                        detail: v.str_of("detail"),
                        tags,
                    });
                }
            }
        }
        g.nviol += j.usize_of("nviol") as u64;
        if let Some(J::Obj(o)) = j.get("counters") {
            for (k, v) in o {
                *g.counters.entry(k.clone()).or_insert(0) += v.as_i64().unwrap_or(0) as u64;
            }
        }
        if let Some(a) = j.get("samples").and_then(|v| v.as_arr()) {
            for x in a {
                if g.samples.len() < 8 {
                    g.samples.push(x.clone());
                }
            }
        }
        if let Some(J::Obj(o)) = j.get("sets") {
            for (k, v) in o {
                if let Some(a) = v.as_arr() {
                    let set = g.sets.entry(k.clone()).or_default();
                    for x in a {
                        if set.len() < 10_000 {
                            set.insert(x.as_str().unwrap_or("").to_string());
                        }
                    }
                }
            }
        }
        if let Some(a) = j.get("machinery").and_then(|v| v.as_arr()) {
            for x in a {
                if g.machinery.len() < 20 {
                    g.machinery.push(x.as_str().unwrap_or("").to_string());
                }
            }
        }
    }
}

// ---------------------------------------------------------------- main-thread watchdog
//
// `par_for` watches its workers. Phases that run on the main thread of a
// process (computing expectations, the single-threaded child processes of C15
// and C17) are watched by this second watchdog: they call `beat()` once per
// case while `armed`.

/// CPU clocks. The watchdogs measure a stall in CPU seconds consumed WITHOUT a
/// heartbeat (a non-terminating loop in the code under test burns CPU), not
/// in wall-clock seconds: on an oversubscribed machine a slow but progressing
/// work item must never be mistaken for a hang. A wall-clock backstop 20 times
/// larger catches a thread that is blocked instead of spinning.
pub mod cpuclock {
    #[repr(C)]
    struct Timespec {
        tv_sec: i64,
        tv_nsec: i64,
    }
    extern "C" {
        fn pthread_self() -> usize;
        fn pthread_getcpuclockid(thread: usize, clockid: *mut i32) -> i32;
        fn clock_gettime(clockid: i32, tp: *mut Timespec) -> i32;
    }
    pub const PROCESS: i32 = 2; // CLOCK_PROCESS_CPUTIME_ID
    /// The CPU-time clock of the calling thread (None if unavailable).
    pub fn of_current_thread() -> Option<i32> {
        let mut id: i32 = 0;
        let rc = unsafe { pthread_getcpuclockid(pthread_self(), &mut id) };
        if rc == 0 {
            Some(id)
        } else {
            None
        }
    }
    pub fn secs(clock: i32) -> Option<f64> {
        let mut ts = Timespec { tv_sec: 0, tv_nsec: 0 };
        let rc = unsafe { clock_gettime(clock, &mut ts) };
        if rc == 0 {
            Some(ts.tv_sec as f64 + ts.tv_nsec as f64 * 1e-9)
        } else {
            None
        }
    }
}

pub static MAIN_HB: std::sync::atomic::AtomicU64 = std::sync::atomic::AtomicU64::new(0);
pub static MAIN_ARMED: std::sync::atomic::AtomicBool = std::sync::atomic::AtomicBool::new(false);
static MAIN_DESC: Mutex<String> = Mutex::new(String::new());

#[inline]
pub fn beat() {
    MAIN_HB.fetch_add(1, std::sync::atomic::Ordering::Relaxed);
}

pub fn arm(desc: &str) {
    *MAIN_DESC.lock().unwrap() = desc.to_string();
    beat();
    MAIN_ARMED.store(true, std::sync::atomic::Ordering::SeqCst);
}

pub fn disarm() {
    MAIN_ARMED.store(false, std::sync::atomic::Ordering::SeqCst);
}

/// Start the watchdog of the main thread (once per process).
pub fn start_main_watchdog(property: String, tier: String) {
    use std::sync::atomic::Ordering;
    let hang_secs: u64 = std::env::var("VERIF_HANG_SECS").ok().and_then(|s| s.parse().ok()).unwrap_or(300);
    std::thread::spawn(move || {
        let mut last = 0u64;
        let mut stalled_wall = 0u64;
        let mut stalled_cpu = 0f64;
        let mut last_cpu = cpuclock::secs(cpuclock::PROCESS);
        loop {
            std::thread::sleep(std::time::Duration::from_secs(1));
            let h = MAIN_HB.load(Ordering::Relaxed);
            let now_cpu = cpuclock::secs(cpuclock::PROCESS);
            if MAIN_ARMED.load(Ordering::SeqCst) && h == last {
                stalled_wall += 1;
                match (last_cpu, now_cpu) {
                    (Some(a), Some(b)) => stalled_cpu += (b - a).max(0.0),
                    _ => stalled_cpu += 1.0,
                }
                if stalled_cpu >= hang_secs as f64 || stalled_wall >= hang_secs * 20 {
                    let desc = MAIN_DESC.lock().map(|d| d.clone()).unwrap_or_default();
                    let rep = Report::new(&property, &tier);
                    rep.abort_no_progress(usize::MAX >> 1, stalled_cpu.max(1.0) as u64, desc);
                }
            } else {
                stalled_wall = 0;
                stalled_cpu = 0.0;
            }
            last = h;
            last_cpu = now_cpu;
        }
    });
}

pub fn fnv(b: &[u8]) -> u64 {
    let mut h = 0xcbf29ce484222325u64;
    for &x in b {
        h ^= x as u64;
        h = h.wrapping_mul(0x100000001b3);
    }
    h
}

pub fn verif_dir() -> String {
    std::env::var("VERIF_DIR").unwrap_or_else(|_| "/verif".to_string())
}

pub struct Known {
    status: String,
    property: String,
    class: Vec<(String, String)>,
    text: String,
}

impl Known {
    fn matches(&self, v: &Violation) -> bool {
        self.status == "known"
            && self.property == v.property
            && !self.class.is_empty()
            && self.class.iter().all(|(k, x)| v.tags.iter().any(|(k2, x2)| k == k2 && x == x2))
    }
    fn describe(&self) -> String {
        self.text.clone()
    }
}

/// Read-only: the file is never written at run time. `fixed` entries
/// suppress nothing.
pub fn load_known() -> Vec<Known> {
    let path = format!("{}/known_findings.jsonl", verif_dir());
    let mut out = vec![];
    if let Ok(text) = std::fs::read_to_string(&path) {
        for line in text.lines() {
            let line = line.trim();
            if line.is_empty() || line.starts_with('#') {
                continue;
            }
            if let Ok(j) = json::parse(line) {
                let class = match j.get("class") {
                    Some(J::Obj(o)) => o
                        .iter()
                        .map(|(k, v)| (k.clone(), v.as_str().map(|s| s.to_string()).unwrap_or_else(|| v.to_string())))
                        .collect(),
                    _ => vec![],
                };
                out.push(Known {
                    status: j.str_of("status"),
                    property: j.str_of("property"),
                    class,
                    text: j.str_of("what"),
                });
            }
        }
    }
    out
}

/// Run `f(i)` for every i in 0..n on all cores; each worker has its own
/// Stats merged into the report at the end.
pub fn par_for<F>(rep: &Report, n: usize, f: F)
where
    F: Fn(usize, &mut Stats) + Sync,
{
    par_for_desc(rep, n, &|i| format!("item {}", i), f)
}

pub fn par_for_desc<F>(rep: &Report, n: usize, desc: &(dyn Fn(usize) -> String + Sync), f: F)
where
    F: Fn(usize, &mut Stats) + Sync,
{
    use std::sync::atomic::{AtomicBool, AtomicU64, AtomicUsize, Ordering};
    use std::sync::Arc;
    let next = AtomicUsize::new(0);
    let threads = std::thread::available_parallelism().map(|x| x.get()).unwrap_or(4).min(32);
    let threads: usize = std::env::var("VERIF_THREADS").ok().and_then(|s| s.parse().ok()).unwrap_or(threads);
    let hang_secs: u64 = std::env::var("VERIF_HANG_SECS").ok().and_then(|s| s.parse().ok()).unwrap_or(300);
    let hbs: Vec<Arc<AtomicU64>> = (0..threads).map(|_| Arc::new(AtomicU64::new(0))).collect();
    let cur: Vec<AtomicUsize> = (0..threads).map(|_| AtomicUsize::new(usize::MAX)).collect();
    // CPU clock id of each worker (i64::MIN: not registered / unavailable)
    let clocks: Vec<std::sync::atomic::AtomicI64> = (0..threads).map(|_| std::sync::atomic::AtomicI64::new(i64::MIN)).collect();
    let done = AtomicBool::new(false);
    std::thread::scope(|s| {
        // watchdog
        s.spawn(|| {
            let mut last: Vec<u64> = vec![0; threads];
            let mut stalled: Vec<u64> = vec![0; threads];
            let mut stalled_cpu: Vec<f64> = vec![0.0; threads];
            let mut last_cpu: Vec<Option<f64>> = vec![None; threads];
            while !done.load(Ordering::Relaxed) {
                for _ in 0..10 {
                    std::thread::sleep(std::time::Duration::from_millis(100));
                    if done.load(Ordering::Relaxed) {
                        return;
                    }
                }
                for t in 0..threads {
                    let item = cur[t].load(Ordering::Relaxed);
                    let h = hbs[t].load(Ordering::Relaxed);
                    let ck = clocks[t].load(Ordering::Relaxed);
                    let now_cpu = if ck == i64::MIN { None } else { cpuclock::secs(ck as i32) };
                    if item != usize::MAX && h == last[t] {
                        stalled[t] += 1;
                        match (last_cpu[t], now_cpu) {
                            (Some(a), Some(b2)) => stalled_cpu[t] += (b2 - a).max(0.0),
                            _ => stalled_cpu[t] += 1.0,
                        }
                        if stalled_cpu[t] >= hang_secs as f64 || stalled[t] >= hang_secs * 20 {
                            rep.abort_no_progress(item, stalled_cpu[t].max(1.0) as u64, desc(item));
                        }
                    } else {
                        stalled[t] = 0;
                        stalled_cpu[t] = 0.0;
                    }
                    last[t] = h;
                    last_cpu[t] = now_cpu;
                }
            }
        });
        let mut handles = vec![];
        for t in 0..threads {
            let hb = hbs[t].clone();
            let cur = &cur;
            let next = &next;
            let f = &f;
            let clocks = &clocks;
            handles.push(s.spawn(move || {
                if let Some(id) = cpuclock::of_current_thread() {
                    clocks[t].store(id as i64, Ordering::Relaxed);
                }
                let mut st = Stats::default();
                st.hb = Some(hb);
                loop {
                    let i = next.fetch_add(1, Ordering::Relaxed);
                    if i >= n {
                        break;
                    }
                    cur[t].store(i, Ordering::Relaxed);
                    st.add("work_items_done", 1);
                    let r = std::panic::catch_unwind(std::panic::AssertUnwindSafe(|| f(i, &mut st)));
                    cur[t].store(usize::MAX, Ordering::Relaxed);
                    if let Err(p) = r {
                        rep.machinery(format!(
                            "harness panic in work item {}: {}",
                            i,
                            crate::aut::panic_msg(&p)
                        ));
                    }
                }
                rep.merge(&st);
            }));
        }
        for h in handles {
            let _ = h.join();
        }
        done.store(true, Ordering::Relaxed);
    });
}

pub fn pats_j(pats: &[Vec<u8>]) -> J {
    J::Arr(pats.iter().map(|p| J::s(json::hex(p))).collect())
}

pub fn pats_show(pats: &[Vec<u8>]) -> String {
    let v: Vec<String> = pats.iter().take(12).map(|p| format!("\"{}\"", json::show(&p[..p.len().min(24)]))).collect();
    if pats.len() > 12 {
        format!("[{}, ... {} patterns]", v.join(","), pats.len())
    } else {
        format!("[{}]", v.join(","))
    }
}

pub fn pats_from_j(j: &J) -> Vec<Vec<u8>> {
    j.as_arr().map_or(vec![], |a| a.iter().map(|x| json::unhex(x.as_str().unwrap_or(""))).collect())
}
