//! C15: no search reads outside the haystack or panics on arbitrary bytes.
//!
//! Child processes run every search on haystacks placed flush against
//! inaccessible pages (PROT_NONE) on either side; the parent turns a
//! SIGSEGV/SIGBUS/abort of a child into a violation naming the exact case
//! (the child records the case it is about to run in a shared file). Reads
//! that stay inside the mapping but leave the slice are caught by poisoning:
//! the bytes next to the haystack are pattern material, and every result is
//! compared with the same search on an ordinary copy of the haystack.

use crate::e3::{self, build_packed, cores, fillers, packed_families, prefilter_families, templates, PVar, V};
use crate::json::{self, J};
use crate::report::{pats_j, pats_show, Report, Stats, Violation};
use crate::spec::{Kind, M};
use crate::universe::Pats;
use aho_corasick::{AhoCorasick, AhoCorasickKind, Anchored, Input, Span};
use std::panic::{catch_unwind, AssertUnwindSafe};

extern "C" {
    fn mmap(addr: *mut u8, len: usize, prot: i32, flags: i32, fd: i32, off: i64) -> *mut u8;
    fn mprotect(addr: *mut u8, len: usize, prot: i32) -> i32;
}
const PROT_NONE: i32 = 0;
const PROT_RW: i32 = 3;
const MAP_SHARED: i32 = 1;
const MAP_PRIVATE_ANON: i32 = 0x22;
const PAGE: usize = 4096;

/// [guard | page A | page B | guard]
pub struct Arena {
    base: *mut u8,
}

impl Arena {
    pub fn new() -> Result<Arena, String> {
        unsafe {
            let p = mmap(std::ptr::null_mut(), 4 * PAGE, PROT_RW, MAP_PRIVATE_ANON, -1, 0);
            if p.is_null() || p as isize == -1 {
                return Err("mmap failed".into());
            }
            if mprotect(p, PAGE, PROT_NONE) != 0 || mprotect(p.add(3 * PAGE), PAGE, PROT_NONE) != 0 {
                return Err("mprotect failed".into());
            }
            Ok(Arena { base: p })
        }
    }
    fn data(&self) -> &mut [u8] {
        unsafe { std::slice::from_raw_parts_mut(self.base.add(PAGE), 2 * PAGE) }
    }
    /// Place `h` flush right (its last byte is the last readable byte) or
    /// flush left; the rest of the readable area is filled with `poison`
    /// repeated. Returns the haystack slice inside the arena.
    pub fn place(&self, h: &[u8], right: bool, poison: &[u8]) -> &[u8] {
        let d = self.data();
        let n = d.len();
        // poison only the 128 bytes next to the haystack (cheap)
        let (lo, hi) = if right { (n - h.len(), n) } else { (0, h.len()) };
        let (plo, phi) = if right { (lo.saturating_sub(128), lo) } else { (hi, (hi + 128).min(n)) };
        for k in plo..phi {
            // aligned so that the poison continues "into" the haystack boundary
            let pl = poison.len().max(1);
            let idx = if right { (pl - ((lo - k) % pl)) % pl } else { (k - hi) % pl };
            d[k] = if poison.is_empty() { 0xAA } else { poison[idx] };
        }
        d[lo..hi].copy_from_slice(h);
        &self.data()[lo..hi]
    }
    /// Self-test helper: address of the first inaccessible byte after the data.
    pub fn first_bad(&self) -> *const u8 {
        unsafe { self.base.add(3 * PAGE) }
    }
}

/// The shared progress file: the child stores the case it is about to run.
pub struct Progress {
    ptr: *mut u8,
}

pub const PROG_LEN: usize = 4096;

impl Progress {
    pub fn open(path: &str) -> Result<Progress, String> {
        use std::os::unix::io::AsRawFd;
        let f = std::fs::OpenOptions::new().read(true).write(true).create(true).open(path).map_err(|e| e.to_string())?;
        f.set_len(PROG_LEN as u64).map_err(|e| e.to_string())?;
        unsafe {
            let p = mmap(std::ptr::null_mut(), PROG_LEN, PROT_RW, MAP_SHARED, f.as_raw_fd(), 0);
            if p.is_null() || p as isize == -1 {
                return Err("mmap of progress file failed".into());
            }
            Ok(Progress { ptr: p })
        }
    }
    /// layout: [len u32][text bytes...]
    #[inline]
    pub fn set(&self, parts: &[&[u8]]) {
        unsafe {
            let mut off = 4usize;
            for p in parts {
                let n = p.len().min(PROG_LEN - off - 1);
                std::ptr::copy_nonoverlapping(p.as_ptr(), self.ptr.add(off), n);
                off += n;
            }
            std::ptr::write_volatile(self.ptr as *mut u32, (off - 4) as u32);
        }
    }
}

fn mm(m: aho_corasick::Match) -> M {
    (m.pattern().as_usize(), m.start(), m.end())
}

#[derive(Clone)]
pub enum Subj {
    Packed { fam: usize, kind: Kind, var: PVar },
    Ac { fam: usize, kind: Kind, ak: AhoCorasickKind },
}

pub fn subjects() -> Vec<Subj> {
    let mut v = vec![];
    for fam in 0..packed_families().len() {
        for kind in [Kind::LF, Kind::LL] {
            for var in PVar::ALL {
                v.push(Subj::Packed { fam, kind, var });
            }
        }
    }
    for fam in 0..prefilter_families().len() {
        for kind in Kind::ALL {
            for ak in [AhoCorasickKind::NoncontiguousNFA, AhoCorasickKind::ContiguousNFA, AhoCorasickKind::DFA] {
                v.push(Subj::Ac { fam, kind, ak });
            }
        }
    }
    v
}

fn subj_desc(s: &Subj) -> String {
    match s {
        Subj::Packed { fam, kind, var } => format!("packed {} {} {}", packed_families()[*fam].name, kind.name(), var.name()),
        Subj::Ac { fam, kind, ak } => format!("ac {} {} {:?}", prefilter_families()[*fam].name, kind.name(), ak),
    }
}

/// Arbitrary byte contents (not templates): every length 0..=2V+8.
fn raw_contents(len: usize) -> Vec<Vec<u8>> {
    vec![
        vec![0xFF; len],
        vec![0x00; len],
        vec![0x80; len],
        (0..len).map(|i| (i * 37 + 11) as u8).collect(),
        (0..len).map(|i| if i % 3 == 0 { 0xC3 } else { 0xE2 }).collect(),
    ]
}

struct Ctx<'a> {
    rep: &'a Report,
    arena: &'a Arena,
    prog: &'a Progress,
    desc: String,
    pats: Pats,
    poison: Vec<u8>,
}

impl<'a> Ctx<'a> {
    fn viol(&self, what: &str, h: &[u8], s: usize, e: usize, right: bool, api: &str, detail: String) {
        self.rep.violation(Violation {
            property: "C15".into(),
            what: what.into(),
            case: J::obj()
                .set("engine", J::s("guard"))
                .set("subject", J::s(self.desc.clone()))
                .set("patterns", pats_j(&self.pats))
                .set("haystack", J::s(json::hex(h)))
                .set("span", J::Arr(vec![J::i(s as i64), J::i(e as i64)]))
                .set("flush_right", J::Bool(right))
                .set("api", J::s(api)),
            detail: format!("{} {}: {} on \"{}\"(len {})[{}..{}] placed flush {}: {}", self.desc, pats_show(&self.pats), api, json::show(h), h.len(), s, e, if right { "right" } else { "left" }, detail),
            tags: vec![],
        });
    }
    fn progress(&self, h: &[u8], s: usize, e: usize, right: bool, api: &str) {
        crate::report::beat();
        let span = format!("|{}..{}|{}|{}|", s, e, if right { "R" } else { "L" }, api);
        self.prog.set(&[self.desc.as_bytes(), span.as_bytes(), json::hex(h).as_bytes()]);
    }
}

fn run_packed_case(cx: &Ctx, sr: &aho_corasick::packed::Searcher, st: &mut Stats, h: &[u8], spans: &[(usize, usize)]) {
    let npats = cx.pats.len();
    for right in [true, false] {
        let g = cx.arena.place(h, right, &cx.poison);
        for &(s, e) in spans {
            if s > e {
                continue;
            }
            cx.progress(h, s, e, right, "find_in");
            st.add("guarded_searches", 1);
            let got = catch_unwind(AssertUnwindSafe(|| sr.find_in(g, Span { start: s, end: e }).map(mm)));
            let plain = catch_unwind(AssertUnwindSafe(|| sr.find_in(h, Span { start: s, end: e }).map(mm)));
            match (&got, &plain) {
                (Ok(a), Ok(b2)) => {
                    if a != b2 {
                        cx.viol("guard-result-differs", h, s, e, right, "find_in", format!("result next to poisoned memory {:?} differs from the result on a plain copy {:?}: bytes outside the slice were read", a, b2));
                    }
                    if let Some(m) = a {
                        if !(m.1 <= m.2 && m.2 <= h.len() && m.0 < npats && m.1 >= s && m.2 <= e) {
                            cx.viol("guard-bad-match", h, s, e, right, "find_in", format!("match {:?} violates start <= end <= len / pid < patterns_len", m));
                        }
                    }
                }
                (Err(p), _) | (_, Err(p)) => cx.viol("guard-panic", h, s, e, right, "find_in", format!("panic: {}", crate::aut::panic_msg(p))),
            }
        }
        cx.progress(h, 0, h.len(), right, "find_iter");
        st.add("guarded_searches", 1);
        let got = catch_unwind(AssertUnwindSafe(|| sr.find_iter(g).take(h.len() + 2).map(mm).collect::<Vec<M>>()));
        let plain = catch_unwind(AssertUnwindSafe(|| sr.find_iter(h).take(h.len() + 2).map(mm).collect::<Vec<M>>()));
        match (&got, &plain) {
            (Ok(a), Ok(b2)) => {
                if a != b2 {
                    cx.viol("guard-result-differs", h, 0, h.len(), right, "find_iter", format!("{:?} vs plain copy {:?}", a, b2));
                }
                if a.iter().any(|m| !(m.1 <= m.2 && m.2 <= h.len() && m.0 < npats)) {
                    cx.viol("guard-bad-match", h, 0, h.len(), right, "find_iter", format!("{:?}", a));
                }
            }
            (Err(p), _) | (_, Err(p)) => cx.viol("guard-panic", h, 0, h.len(), right, "find_iter", format!("panic: {}", crate::aut::panic_msg(p))),
        }
    }
}

fn run_ac_case(cx: &Ctx, ac: &AhoCorasick, kind: Kind, st: &mut Stats, h: &[u8], spans: &[(usize, usize)]) {
    let npats = cx.pats.len();
    let reps: Vec<String> = (0..npats).map(|i| format!("<{}>", i)).collect();
    for right in [true, false] {
        let g = cx.arena.place(h, right, &cx.poison);
        for &(s, e) in spans {
            for anchored in [false, true] {
                if anchored && s != 0 && s + 1 != e {
                    continue;
                }
                cx.progress(h, s, e, right, if anchored { "observe-anchored" } else { "observe" });
                st.add("guarded_searches", 5);
                let a = e3::observe(ac, kind, g, s, e, anchored);
                let b2 = e3::observe(ac, kind, h, s, e, anchored);
                if a != b2 {
                    cx.viol("guard-result-differs", h, s, e, right, "find/find_iter/is_match/earliest/overlapping", format!("results next to poisoned memory differ from the results on a plain copy: {:?} vs {:?}", a, b2));
                }
                let txt = format!("{:?}", a);
                if txt.contains("PANIC") {
                    cx.viol("guard-panic", h, s, e, right, "find/find_iter/is_match/earliest/overlapping", txt.chars().take(400).collect());
                }
                // bounds of everything reported
                let mut ms: Vec<M> = vec![];
                if let Ok(Some(m)) = e3_find(&a) {
                    ms.push(m);
                }
                ms.extend(e3_iter(&a));
                if s <= e && ms.iter().any(|m| !(m.1 <= m.2 && m.2 <= h.len() && m.0 < npats && m.1 >= s && m.2 <= e)) {
                    cx.viol("guard-bad-match", h, s, e, right, "find/find_iter", format!("a reported match violates start <= end <= len / pid < patterns_len / inside span: {:?}", ms));
                }
            }
        }
        // replace on the whole haystack
        cx.progress(h, 0, h.len(), right, "replace_all_bytes");
        st.add("guarded_searches", 1);
        let got = catch_unwind(AssertUnwindSafe(|| ac.try_replace_all_bytes(g, &reps).map_err(|e| e.to_string())));
        let plain = catch_unwind(AssertUnwindSafe(|| ac.try_replace_all_bytes(h, &reps).map_err(|e| e.to_string())));
        match (&got, &plain) {
            (Ok(a), Ok(b2)) => {
                if a != b2 {
                    cx.viol("guard-result-differs", h, 0, h.len(), right, "replace_all_bytes", format!("{:?} vs plain copy {:?}", a, b2));
                }
            }
            (Err(p), _) | (_, Err(p)) => cx.viol("guard-panic", h, 0, h.len(), right, "replace_all_bytes", format!("panic: {}", crate::aut::panic_msg(p))),
        }
        // valid UTF-8 haystacks also go through the &str replace routine
        if let Ok(sg) = std::str::from_utf8(g) {
            cx.progress(h, 0, h.len(), right, "replace_all");
            st.add("guarded_searches", 1);
            let got = catch_unwind(AssertUnwindSafe(|| ac.try_replace_all(sg, &reps).map_err(|e| e.to_string())));
            if let Err(p) = got {
                cx.viol("guard-panic", h, 0, h.len(), right, "replace_all", format!("panic: {}", crate::aut::panic_msg(&p)));
            }
        }
    }
}

fn e3_find(o: &e3::Obs) -> Result<Option<M>, String> {
    o.find_result()
}
fn e3_iter(o: &e3::Obs) -> Vec<M> {
    o.iter_result()
}

/// Child: subjects i with i % n == c.
pub fn child(tier: &str, c: usize, n: usize, progress_path: &str, only_subject: Option<usize>) -> i32 {
    let rep = Report::new("C15", tier);
    let t = rep.thorough();
    let arena = match Arena::new() {
        Ok(a) => a,
        Err(e) => {
            println!("{}", J::obj().set("machinery", J::Arr(vec![J::s(e)])).to_string());
            return 0;
        }
    };
    let prog = match Progress::open(progress_path) {
        Ok(p) => p,
        Err(e) => {
            println!("{}", J::obj().set("machinery", J::Arr(vec![J::s(e)])).to_string());
            return 0;
        }
    };
    let subs = subjects();
    let pfams = packed_families();
    let afams = prefilter_families();
    crate::report::arm("C15 child (the shared progress file names the exact case)");
    let mut stats = Stats::default();
    let st = &mut stats;
    let mut spans = vec![];
    for (ix, sj) in subs.iter().enumerate() {
        if let Some(o) = only_subject {
            if o != ix {
                continue;
            }
        } else if ix % n != c {
            continue;
        }
        st.add("subjects", 1);
        match sj {
            Subj::Packed { fam, kind, var } => {
                let f = &pfams[*fam];
                let sr = match catch_unwind(AssertUnwindSafe(|| build_packed(&f.pats, *kind, *var))) {
                    Ok(Some(s)) => s,
                    _ => continue,
                };
                let poison: Vec<u8> = f.pats.iter().take(4).flat_map(|p| p.iter().copied()).collect();
                let cx = Ctx { rep: &rep, arena: &arena, prog: &prog, desc: subj_desc(sj), pats: f.pats.clone(), poison };
                let mask = f.pats.iter().map(|p| p.len()).min().unwrap().min(4);
                let fills = fillers(&f.pats);
                let cs = cores(f, false);
                for core in cs.iter().step_by(if t { 1 } else { 2 }) {
                    templates(core, &fills[..1], mask, t, |h, i, _| {
                        e3::span_forms(h.len(), i, core.len(), false, &mut spans);
                        run_packed_case(&cx, &sr, st, h, &spans);
                        st.add("haystacks", 1);
                    });
                }
                for len in 0..=2 * V + 8 {
                    for h in raw_contents(len) {
                        spans.clear();
                        spans.push((0, len));
                        spans.push((len / 2, len));
                        spans.push((0, len / 2));
                        run_packed_case(&cx, &sr, st, &h, &spans);
                        st.add("haystacks", 1);
                    }
                }
            }
            Subj::Ac { fam, kind, ak } => {
                let f = &afams[*fam];
                let ac = match catch_unwind(AssertUnwindSafe(|| {
                    AhoCorasick::builder().match_kind(kind.ac()).ascii_case_insensitive(f.ci).kind(Some(*ak)).start_kind(aho_corasick::StartKind::Both).build(&f.pats)
                })) {
                    Ok(Ok(a)) => a,
                    _ => continue,
                };
                let poison: Vec<u8> = f.pats.iter().take(4).flat_map(|p| p.iter().copied()).collect();
                let cx = Ctx { rep: &rep, arena: &arena, prog: &prog, desc: subj_desc(sj), pats: f.pats.clone(), poison };
                let mask = f.pats.iter().map(|p| p.len()).min().unwrap().min(4);
                let fl = crate::universe::bottom(&f.pats);
                let base = e3::Fam { name: f.name.clone(), pats: f.pats.clone(), alpha: f.alpha.clone() };
                let cs = cores(&base, false);
                for core in cs.iter().step_by(if t { 2 } else { 6 }) {
                    templates(core, &[fl], mask, false, |h, i, _| {
                        if !t && i % 2 == 1 && i > 4 && i < V - 2 {
                            return;
                        }
                        e3::span_forms(h.len(), i, core.len(), false, &mut spans);
                        run_ac_case(&cx, &ac, *kind, st, h, &spans);
                        st.add("haystacks", 1);
                    });
                }
                for len in 0..=2 * V + 8 {
                    for h in raw_contents(len) {
                        spans.clear();
                        spans.push((0, len));
                        spans.push((len / 2, len));
                        run_ac_case(&cx, &ac, *kind, st, &h, &spans);
                        st.add("haystacks", 1);
                    }
                }
            }
        }
    }
    prog.set(&[b"done"]);
    crate::report::disarm();
    rep.merge(&stats);
    let _ = Anchored::No;
    let _ = Input::new("");
    println!("{}", rep.export().to_string());
    0
}

fn read_progress(path: &str) -> String {
    match std::fs::read(path) {
        Ok(b2) if b2.len() >= 4 => {
            let n = u32::from_le_bytes([b2[0], b2[1], b2[2], b2[3]]) as usize;
            String::from_utf8_lossy(&b2[4..(4 + n).min(b2.len())]).into_owned()
        }
        _ => String::new(),
    }
}

pub fn run(rep: &Report) -> i32 {
    // self-test of the monitor: a child that reads one byte past the data
    // pages must die with a signal, and the parent must see it.
    let exe = std::env::current_exe().expect("current exe");
    let tmp = format!("{}/.target/c15", crate::report::verif_dir());
    let _ = std::fs::create_dir_all(&tmp);
    {
        let out = std::process::Command::new(&exe).arg("C15-selftest-oob").stdout(std::process::Stdio::null()).stderr(std::process::Stdio::null()).status();
        use std::os::unix::process::ExitStatusExt;
        match out {
            Ok(s) if s.signal().is_some() => rep.count("selftest_oob_child_killed_by_signal", s.signal().unwrap() as u64),
            other => rep.machinery(format!("guard page self-test failed: out-of-bounds read did not kill the child ({:?})", other)),
        }
    }
    let nsub = subjects().len();
    let nchild = std::thread::available_parallelism().map(|x| x.get()).unwrap_or(4).min(16);
    let mut children = vec![];
    for c in 0..nchild {
        let pp = format!("{}/progress-{}.bin", tmp, c);
        let _ = std::fs::remove_file(&pp);
        let ch = std::process::Command::new(&exe)
            .arg("C15-child")
            .arg(&rep.tier)
            .arg(c.to_string())
            .arg(nchild.to_string())
            .arg(&pp)
            .stdout(std::process::Stdio::piped())
            .stderr(std::process::Stdio::null())
            .spawn();
        match ch {
            Ok(ch) => children.push((ch, pp)),
            Err(e) => rep.machinery(format!("cannot spawn child: {}", e)),
        }
    }
    for (ch, pp) in children {
        use std::os::unix::process::ExitStatusExt;
        match ch.wait_with_output() {
            Ok(out) => {
                let text = String::from_utf8_lossy(&out.stdout);
                let parsed = text.lines().rev().find(|l| l.starts_with('{')).map(json::parse);
                if let Some(sig) = out.status.signal() {
                    let at = read_progress(&pp);
                    rep.violation(Violation {
                        property: "C15".into(),
                        what: "memory-fault".into(),
                        case: J::obj().set("engine", J::s("guard-crash")).set("progress", J::s(at.clone())).set("signal", J::i(sig as i64)),
                        detail: format!("a child process was killed by signal {} while running the case: {}", sig, at),
                        tags: vec![],
                    });
                } else if out.status.code() != Some(0) {
                    let at = read_progress(&pp);
                    rep.violation(Violation {
                        property: "C15".into(),
                        what: "abort".into(),
                        case: J::obj().set("engine", J::s("guard-crash")).set("progress", J::s(at.clone())).set("code", J::i(out.status.code().unwrap_or(-1) as i64)),
                        detail: format!("a child process ended with status {:?} while running the case: {}", out.status.code(), at),
                        tags: vec![],
                    });
                } else {
                    match parsed {
                        Some(Ok(j)) => rep.import(&j),
                        _ => rep.machinery("child gave no result".into()),
                    }
                }
            }
            Err(e) => rep.machinery(format!("child failed: {}", e)),
        }
    }
    rep.sample(J::obj().set("subject", J::s("packed m4-tail-12 leftmost-first slim-teddy-256")).set("haystack", J::s("filler^i . core . filler^j placed so that its last byte is the last readable byte before a PROT_NONE page (and, second pass, its first byte the first readable byte)")).set("apis", J::s("find_in on 6 span forms, find_iter")));
    rep.sample(J::obj().set("subject", J::s("ac rare2-zq standard dfa")).set("haystack", J::s("0xFF x len, len = 0..=72, flush right / flush left")).set("apis", J::s("try_find, find_iter, is_match, earliest, overlapping, replace_all_bytes, replace_all (valid UTF-8), unanchored and anchored")));
    let ev = rep.get("guarded_searches");
    let cov = J::obj()
        .set("evaluations", J::i(ev.max(1)))
        .set("distinct_nontrivial", J::i(rep.get("haystacks")))
        .set("rule", J::s("every packed variant (13 + default) x 2 kinds x 30 families and every prefilter family x 3 kinds x 3 automaton kinds: haystacks filler^i.core.filler^j (all offsets, lengths up to 72) and arbitrary byte contents (0xFF, 0x00, 0x80, a byte ramp, broken UTF-8) of EVERY length 0..=72, each placed flush right against a PROT_NONE page and flush left after one; all span forms; find_in / find_iter / try_find / is_match / earliest / overlapping / replace_all_bytes / replace_all. Oracles: the child must not die (SIGSEGV/SIGBUS/abort -> violation naming the case from the shared progress file), no panic, start <= end <= len, pid < patterns_len, matches inside the span, and results equal to those on a plain copy while the memory next to the haystack holds pattern bytes (poison). A haystack placement counts once"))
        .set("subjects", J::i(nsub as i64))
        .set("exhaustive", J::Bool(true))
        .set("bounds", J::s(format!("haystack length 0..={}; flush-right and flush-left placement; {} subjects in {} child processes", 2 * V + 8, nsub, nchild)))
        .set("design_ref", J::s("7 (C15 detail)"));
    if ev == 0 && rep.nviol() == 0 {
        rep.machinery("vacuous run".into());
    }
    rep.finish(
        "exploration",
        cov,
        &[
            "memory safety is decided by a fault monitor (guard pages) over an exhaustively enumerated placement space, not by reasoning about pointers: a stray read that stays inside the two data pages and does not change any result is not seen",
            "the monitor self-test (a deliberate read one byte past the data pages kills the child) runs before every check",
        ],
    )
}

pub fn selftest_oob() -> i32 {
    let a = Arena::new().unwrap();
    let v = unsafe { std::ptr::read_volatile(a.first_bad()) };
    println!("unexpectedly read {}", v);
    0
}

pub fn replay(case: &J) -> i32 {
    println!("C15 case: {}", case.to_string());
    if case.str_of("engine") == "guard-crash" {
        // re-run the subject named in the progress record in a child
        let prog = case.str_of("progress");
        let subs = subjects();
        let ix = subs.iter().position(|s| prog.starts_with(&subj_desc(s)));
        let ix = match ix {
            Some(i) => i,
            None => {
                println!("cannot identify the subject from the progress record");
                return 2;
            }
        };
        let exe = std::env::current_exe().expect("current exe");
        let pp = format!("{}/.target/c15/progress-replay.bin", crate::report::verif_dir());
        let st = std::process::Command::new(&exe).arg("C15-child").arg("thorough").arg("0").arg("1").arg(&pp).arg(ix.to_string()).stdout(std::process::Stdio::null()).status();
        use std::os::unix::process::ExitStatusExt;
        return match st {
            Ok(s) if s.signal().is_some() || s.code() != Some(0) => {
                println!("child died again ({:?}) at: {}", s, read_progress(&pp));
                1
            }
            Ok(_) => 0,
            Err(_) => 2,
        };
    }
    // result-level findings: re-run the one haystack in this process
    let pats = crate::report::pats_from_j(case.get("patterns").unwrap_or(&J::Null));
    let h = json::unhex(&case.str_of("haystack"));
    let subs = subjects();
    let want = case.str_of("subject");
    let sj = match subs.iter().find(|s| subj_desc(s) == want) {
        Some(s) => s.clone(),
        None => return 2,
    };
    let rep = Report::new("C15", "quick");
    let arena = Arena::new().unwrap();
    let pp = format!("{}/.target/c15/progress-replay.bin", crate::report::verif_dir());
    let _ = std::fs::create_dir_all(format!("{}/.target/c15", crate::report::verif_dir()));
    let prog = Progress::open(&pp).unwrap();
    let poison: Vec<u8> = pats.iter().take(4).flat_map(|p| p.iter().copied()).collect();
    let cx = Ctx { rep: &rep, arena: &arena, prog: &prog, desc: want.clone(), pats: pats.clone(), poison };
    let mut st = Stats::default();
    let span = case.get("span").and_then(|s| s.as_arr()).map(|a| (a[0].as_usize().unwrap_or(0), a[1].as_usize().unwrap_or(0))).unwrap_or((0, h.len()));
    match sj {
        Subj::Packed { kind, var, .. } => {
            if let Some(sr) = build_packed(&pats, kind, var) {
                run_packed_case(&cx, &sr, &mut st, &h, &[span]);
            }
        }
        Subj::Ac { fam, kind, ak } => {
            let ci = prefilter_families()[fam].ci;
            if let Ok(ac) = AhoCorasick::builder().match_kind(kind.ac()).ascii_case_insensitive(ci).kind(Some(ak)).start_kind(aho_corasick::StartKind::Both).build(&pats) {
                run_ac_case(&cx, &ac, kind, &mut st, &h, &[span]);
            }
        }
    }
    (rep.nviol() > 0) as i32
}
