#!/usr/bin/env python3
"""Regenerates MANIFEST.json from the table below (kept in the repo so that the manifest is reproducible)."""
import json, subprocess
hooks = subprocess.run(["git","-C","/repo","log","--format=%h %s"],capture_output=True,text=True).stdout.splitlines()
hook_commits=[l.split()[0] for l in hooks if l.split(' ',1)[1].startswith('verif hook')]
E1="E1 acmc"; E2="E2 iomc"; E3="E3 packmc"; E4="E4 apimc"; E5="E5 schedmc"; E6="E6 guardmc"
T = {
 "C01": (E1,"model_checking","explicit-state exploration of the closed product (real automaton tables via next_state x documented search recipe x naive reference state) over all 256 bytes, per pattern list; witness + bounded-exhaustive haystack/span replay through the real search APIs",
   "For every enumerated pattern list and both leftmost kinds the statement is decided for haystacks of every length at table level (closed reachable product, all 15 low-level representations x prefilter on/off), and the crate's own search loops and iterator are bound to it by replaying every BFS witness and every haystack up to the layer-2 length x every span through 48 real searchers. Bounded in the pattern-list universe only.",
   "SPEC (naive reference, two formulations cross-checked at start-up) is the definition; harness recipe is the documented one; bytes outside sigma(P) interchangeable for the reference (tables still driven with all 256)","2, 7"),
 "C02": (E1,"model_checking","explicit-state exploration of the closed product (real tables x standard recipe x naive reference) + replay through real find/find_iter",
   "As C01 for standard semantics: earliest end, longest at that end, first supplied; haystack length unbounded at table level; iterator and spans via bounded-exhaustive replay.","as C01","2, 7"),
 "C03": (E1,"model_checking","explicit-state exploration of every reachable (state, byte) of each representation: full match list vs the suffix set of the reference; stepwise + iterator overlapping replay incl. calls past the end",
   "Every reachable state's whole match list (content, order, multiplicity) is compared with the reference on the closed product, so overlapping search yields each occurrence exactly once in end order for haystacks of every length; the resumable search state machine is bound by stepwise replay (until None + 3 further calls) on witnesses and all short haystacks x spans.","as C01","2, 7"),
 "C04": (E1,"model_checking","lock-step product exploration (bisimulation up to search-observable behaviour) of all low-level representations of the same patterns (15 table-level ones, own-builder and independent-depth variants, plain constructors), no reference involved; differential replay of all search APIs incl. top-level automatic/explicit kinds",
   "The joint reachable state space of nNFA/cNFA/DFA under every dense-depth, byte-class and start-kind option is closed under all 256 bytes (unanchored and anchored); in every joint state what a search can observe must agree. Decides equality for haystacks of every length per pattern list; API-level equality on witnesses and bounded haystacks x spans x anchoring.",
   "only search-observable behaviour is compared (match lists, recorded match, API results), never state numbering, is_special/is_start or the moment of entering the dead state","2, 7"),
 "C05": (E3,"exploration","bounded-exhaustive enumeration of haystack templates (offset x tail length x span x core) per prefilter variant, differential against the same searcher with the prefilter disabled",
   "Every prefilter variant (memmem, start bytes 1-3, rare bytes 1-3, packed) is exercised by several families; every core position modulo the vector width, every tail length, trigger bytes at every small distance before a match, restricted spans, anchored and case-insensitive searchers, single/iterator/overlapping searches. A prefilter that skips, invents or alters a match anywhere in that space is reported.",
   "oracle = same searcher with prefilter(false); earliest searches compared on existence only (C14 specifies which occurrence only up to 'ends no later')","4, 7"),
 "C06": (E3,"exploration","bounded-exhaustive enumeration (variant x family x core x filler x offset x tail x span) of the packed searchers against the naive leftmost reference",
   "All 13 algorithm variants available on this CPU (Rabin-Karp, slim Teddy 128/256, fat Teddy, fingerprints 1-4) x both match kinds x 47 colliding families (incl. shortest pattern 15..36 and 64..200 bytes) plus stray templates, 2^16-byte patterns and the construction contract; every offset 0..2V+5 and tail length, haystacks shorter than a vector, matches straddling windows and in the overlapping final window, near misses for the tail compare; find_in on span forms and find_iter.",
   "occurrences of filler^i.core.filler^j are those of the core shifted (no filler byte occurs in a pattern; lemma cross-checked against the fully naive reference on the small families)","4, 7"),
 "C07": (E2,"model_checking","stateless exhaustive exploration (choice-prefix DFS with replay) of every read-size schedule of the real StreamFindIter, over streams, roll-buffer capacities (hook H1) and automaton kinds; deviation-bounded for long streams",
   "Every way a reader can split every stream up to the full-bound length into reads, for capacities longest pattern+1..8x, is executed on the real code and compared with the in-memory iterator; long streams with a bounded number of short reads exercise several rolls and matches straddling read and roll boundaries.",
   "environment (reader) owned by the harness; hook H1 only shrinks the buffer","3, 7"),
 "C08": (E2,"model_checking","as C07 on try_stream_replace_all / _with: every read schedule x replacement table x short-write pattern; output vs splice of the in-memory iterator; closure arguments checked",
   "Byte-for-byte output equality with in-memory replacement for every schedule/capacity; the closure variant must be handed exactly the matched bytes and absolute offsets; writers accepting 1, 2 or all bytes per call.",
   "as C07","3, 7"),
 "C09": (E1,"model_checking","explicit-state exploration of the closed product from the anchored start state (NFAs, DFA Anchored/Both) against the reference restricted to occurrences at the start; anchored find/iterator/stepwise-overlapping replay",
   "Anchored behaviour decided for inputs of every length at table level (full-length matches exactly the anchored occurrences, never dead while a pattern can still match) and bound to the real anchored search, iterator (adjacent chain, stop at first gap) and stepwise overlapping search by replay over all short haystacks x span starts; the anchored flag survives every way and order of stating flags and span through Input (haystacks 0..5 x every span).","as C01","2, 7"),
 "C10": (E3,"exploration","bounded-exhaustive enumeration of every span of every short haystack (automata, all APIs, both anchoring modes, prefilter on/off) and of span forms at vector-relevant offsets (packed, prefilters): differential span vs sub-slice vs hostile outside bytes",
   "Every 0<=s<=e<=len and s=e+1 for all haystacks up to the budgeted length; result must equal the sub-slice result shifted, stay inside the span, and be unchanged when all bytes outside the span are replaced by pattern material.",
   "oracle = same searcher on the sub-slice","4, 7"),
 "C11": (E1,"model_checking","explicit-state product exploration with ascii_case_insensitive searchers over a case/boundary alphabet against a reference folding exactly A-Z; all 256 bytes as actions; API replay",
   "Decides for every enumerated list over {a,A,@,`,[,{,0xC1,0xE1,...} and haystacks of every length that exactly the ASCII letters fold (boundary bytes and bytes >= 0x80 must match exactly) and that identifiers are those of the patterns as supplied; all kinds, anchoring modes, prefilter on/off.","as C01","2, 7"),
 "C12": (E4,"exploration","complete enumeration of (pattern list x haystack x match kind x automaton kind x replace routine x closure answer sequence) within stated bounds; oracle = splice over the same searcher's find_iter",
   "All four in-memory replace routines, including byte patterns that split multi-byte characters and the empty pattern, on every valid UTF-8 haystack up to 4/5 characters over {a,b,e-acute,euro}; every closure answer sequence (false at call k, for every k); no panic; valid UTF-8; skipped matches exactly those off a character boundary.",
   "differential against the searcher's own find_iter (its correctness is C01/C02)","5, 7"),
 "C13": (E4,"exploration","complete enumeration of the configuration x API product (match kind x start kind x automaton kind x pattern shape x prefilter x anchoring x 21 entry points x 3 haystacks) against the four-rule table",
   "The whole finite product is executed; outcome class Ok/Err/panic must equal the table for every automaton kind and pattern list of a shape; constructed iterators are drained and must not fail later; low-level automaton types included.",
   "the four rules of the statement are the oracle; error texts not compared","5, 7"),
 "C14": (E1,"model_checking","explicit-state exploration of the closed product with the earliest recipe against the reference (genuine occurrence, end <= normal end, exists iff exists); is_match/earliest/find replay",
   "Decides the earliest contract and existence for haystacks of every length at table level for all kinds/representations/anchoring; is_match == find.is_some() == occurrence set non-empty on all witnesses and short haystacks x spans through 48 real searchers (prefilter on and off).","as C01","2, 7"),
 "C15": (E6,"exploration","bounded-exhaustive enumeration of haystack length x content x flush-left/right placement against PROT_NONE guard pages in monitored child processes, with poisoned neighbouring memory and differential against a plain copy",
   "Every haystack length 0..72 and content family, each alignment, for all packed variants and prefilter families, all search/replace APIs and span forms; a stray access into the guard page kills the child and is attributed to the exact case; in-mapping over-reads that change an answer are caught by poisoning; reported matches satisfy start<=end<=len, pid<patterns_len.",
   "fault monitor, not pointer reasoning: an over-read that stays inside the data pages and changes no result is not seen","7 (C15 detail)"),
 "C16": (E1,"model_checking","exhaustive exploration of every state reachable via next_state x 256 bytes x both anchoring arguments of each low-level automaton (contract predicates); documented caller-written loop vs built-in search replay",
   "Complete per automaton: no panic, dead absorbing, dead/match => special, special => dead|match|start, match states list >= 1 valid id, start_state fails exactly for unsupported anchoring; the recipe from the trait documentation equals try_find on all short haystacks x spans x anchoring.","recipe = the documented one plus the anchored start filter of the built-in loop","2, 7"),
 "C17": (E5,"model_checking","stateless exploration of thread interleavings at hook-H3 scheduling points with a token-passing scheduler over real OS threads (preemption-bounded choice-prefix DFS, replayed), plus exhaustive operation histories and cursor interleavings; oracle = result on a never-used searcher",
   "All interleavings with <= 2 (thorough 3) preemptions of 2-3 concurrent operations on a shared searcher or clone, all operation sequences up to depth 3 (4) over 21 operations (13 searchers) incl. > 64 KiB inputs, hand-over of a paused overlapping search to a clone, all interleavings of four live cursors. Scheduler completeness (C(14,7)=3432) and sensitivity (racy fixture found first at bound 1) self-tested every run.",
   "interleavings at hook granularity, not instruction granularity; no claim about 'no interior mutability' as a structural fact","6, 7"),
 "C18": (E2,"fault_enumeration","exhaustive fault injection: for every read schedule of every stream, an injected read error at every read call index and a writer failing after every number of accepted bytes (with and without short writes)",
   "Every fault position over every schedule within the bounds of C07: no panic, exactly one error surfaced, matches before it are a prefix of the fault-free sequence, bytes written a prefix of the fault-free output, end of stream only after the reader returned Ok(0).",
   "behaviour after an error has been reported is observed, not judged","3, 7"),
 "C19": (E1,"model_checking","explicit weighted state graph of each NFA (weight = failure traversals of a single next_state call, from hook H2 counters, minus one) with longest-path analysis over the closed graph; hook counters on every built-in search call during replay",
   "No positive cycle and longest path <= 0 from the start state => for every haystack of every length, at every prefix, failure traversals <= transitions; positions of transitions strictly increase inside the span for every API call on witnesses and short haystacks (<= 1 transition per byte); DFA follows none. Adversarial families a^k b, nested suffixes, case-insensitive tries included.",
   "counts transitions/failure traversals/cursor monotonicity, not wall-clock time nor memchr work inside prefilters","2, 7, 8"),
 "C20": (E4,"exploration","complete enumeration of shape families x the entire builder-option product (1152 combinations); metadata mirror + reference identifiers",
   "Every combination of match kind, kind, start kind, folding, prefilter, dense depth and byte classes is really built for ~90 shape families (no patterns ... 1000/3000/5000 patterns, all 256 bytes, pattern lengths around 256 and 2^16, 16..33 patterns with a one-byte pattern); kind returned == requested; counts, lengths, kinds mirrored; pattern identifiers are input positions.",
   "documented size limits are not approached","5, 7"),
}
checks=[]
for pid,(eng,level,tech,text,note,ref) in T.items():
    checks.append({
      "property_id": pid,
      "quick_cmd": "./check %s quick" % pid,
      "thorough_cmd": "./check %s thorough" % pid,
      "evidence_file": "/verif/evidence/%s.json" % pid,
      "replay_cmd_template": "./check replay {path}",
      "engine": eng,
      "level_claimed": {"category": level, "text": text, "design_ref": "DESIGN.md section " + ref},
      "level_note": note,
      "technique": tech,
    })
m={
 "version":1,
 "setup_cmd":"./check build",
 "hooks":{
   "guard":"--cfg aho_corasick_verif",
   "enable":"RUSTFLAGS=\"--cfg aho_corasick_verif\" cargo build --release --offline in /verif/mc (path dependency on /repo, target dir /verif/.target); done by ./check before every run",
   "baseline_off_cmd":"cd /repo && (cargo nextest run --workspace --no-fail-fast --offline || cargo test --workspace --no-fail-fast --offline)",
   "source_commits": hook_commits[::-1],
   "add_only": True},
 "engines":[
  {"name":E1,"path":"mc/src/e1.rs, mc/src/e1run.rs, mc/src/api.rs","serves_properties":["C01","C02","C03","C04","C09","C11","C14","C16","C19"],"kind_free_text":"explicit-state product exploration of the real automata against a naive reference / against each other, plus witness and bounded-exhaustive replay through the real APIs"},
  {"name":E2,"path":"mc/src/e2.rs","serves_properties":["C07","C08","C18"],"kind_free_text":"stateless exhaustive exploration of reader/writer environment answers (schedules, faults) with replay"},
  {"name":E3,"path":"mc/src/e3.rs","serves_properties":["C05","C06","C10"],"kind_free_text":"bounded-exhaustive enumeration of position x length x span for vector code"},
  {"name":E4,"path":"mc/src/e4.rs","serves_properties":["C12","C13","C20"],"kind_free_text":"complete enumeration of configuration / API products"},
  {"name":E5,"path":"mc/src/e5.rs","serves_properties":["C17"],"kind_free_text":"token-passing scheduler over real threads at hook points, preemption-bounded DFS; operation histories"},
  {"name":E6,"path":"mc/src/e6.rs","serves_properties":["C15"],"kind_free_text":"guard-page fault monitor over exhaustively enumerated placements, in child processes"}],
 "checks":checks,
 "notes":"All checks: ./check <ID> <quick|thorough>; rebuilds /verif/mc against /repo's working tree (hooks on). Exit 0 held / 1 VIOLATION / 2 machinery error. Known findings file: /verif/known_findings.jsonl (five defects, all repaired by fix: commits; no open findings).",
 "not_applicable":[]
}
json.dump(m,open('/verif/MANIFEST.json','w'),indent=1)
print("checks:",len(checks),"hook commits:",m['hooks']['source_commits'])
