#!/bin/bash
# Runs every registered check (tier $1, default quick) on the current /repo tree and validates all evidence files.
tier=${1:-quick}
cd /verif || exit 2
git -C /repo diff --quiet || { echo "/repo working tree is not clean"; exit 2; }
fail=0
for id in $(python3 -c "import json;print(' '.join(c['property_id'] for c in json.load(open('MANIFEST.json'))['checks']))"); do
  s=$(date +%s); out=$(./check $id $tier 2>&1); rc=$?; e=$(date +%s)
  echo "$id rc=$rc $((e-s))s $(echo "$out" | tail -1 | cut -c1-120)"
  [ $rc -ne 0 ] && fail=1
done
python3-vt - <<'PY' || fail=1
import json, jsonschema, glob, sys
s=json.load(open('/root/.vp/EVIDENCE.schema.json')); bad=0
for f in sorted(glob.glob('/verif/evidence/*.json')):
    try: jsonschema.validate(json.load(open(f)),s)
    except Exception as e: print(f,'INVALID',str(e)[:160]); bad=1
m=json.load(open('/verif/MANIFEST.json')); jsonschema.validate(m,json.load(open('/root/.vp/MANIFEST.schema.json')))
print('evidence and manifest validated' if not bad else 'EVIDENCE PROBLEM'); sys.exit(bad)
PY
exit $fail
